#!/bin/bash
# Runs the repository's pinned baseline suite (guard OFF) in the tree given as $1 (default /repo).
# Prints the summary line; exit 0 iff exactly the known always-failing test (tests/test_cgi.py) fails.
REPO="${1:-/repo}"
cd "$REPO" || exit 2
unset JSONRPCLIB_VERIF
out=$(/venv/bin/python -m pytest -ra -q -p no:cacheprovider --timeout=900 --continue-on-collection-errors 2>&1)
echo "$out" | tail -4
fails=$(echo "$out" | grep -E '^(FAILED|ERROR)' | grep -v 'tests/test_cgi.py::CGIHandlerTests::test_server' | wc -l)
passed=$(echo "$out" | grep -oE '[0-9]+ passed' | grep -oE '[0-9]+')
echo "passed=$passed unexpected_failures=$fails"
[ "$fails" = "0" ] && [ "${passed:-0}" -ge 62 ]
