#!/bin/bash
# tools/finalize.sh: regenerates everything that is derived - evidence (quick tier of every check against /repo), MANIFEST.json,
# the as-built table of DESIGN.md, seeded/RESULTS.md - and validates manifest and evidence against the schemas.
cd /verif
rc=0
for p in C01 C02 C03 C04 C05 C06 C07 C08 C09 C10 C11 C12 C13 C14 C15 C16 C17 C18 C19 C20; do
  out=$(./check $p --tier quick 2>&1); r=$?
  echo "$p exit=$r $(echo "$out" | tail -1 | grep -oE 'wall=.*')"
  if [ $r -ne 0 ] || echo "$out" | grep -qE '^(VIOLATION|HARNESS-ERROR)'; then echo "$out" | grep -E '^(VIOLATION|HARNESS-ERROR|  signature)' | head -5; rc=1; fi
done
/venv/bin/python tools/gen_manifest.py && tools/validate.sh && /venv/bin/python tools/design_table.py && /venv/bin/python tools/seed_report.py > /dev/null
exit $rc
