#!/bin/bash
# tools/seed_all.sh [names...]  - runs tools/try_seed.sh for the given seeds (default: all) with the properties listed in
# seeded/<name>/props (default: the property the seed is named after); appends to seeded/results.log
cd /verif
names="$@"; [ -z "$names" ] && names=$(ls seeded | grep -E '^(C[0-9]+[a-z]|R[0-9]+|W[0-9][a-z]|V[0-9]+[a-z]|X[0-9]+[a-z]|Z[0-9][a-z]|Y[0-9]+[a-z]|U[0-9][a-z]|X[0-9a-z]+)$')
for n in $names; do
  d=seeded/$n
  props=$(cat $d/props 2>/dev/null); [ -z "$props" ] && props=${n%?}
  tools/try_seed.sh $n $PWD/$d/patch.diff $PWD/$d/demo.py "$props" ${TIER:-quick} | tee -a seeded/results.log
done
