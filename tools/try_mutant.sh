#!/bin/bash
# tools/try_mutant.sh <name>: hand-made mutant in seeded/handmade/<name> (patch.diff + props): baseline suite + owning quick checks
name=$1; d=/verif/seeded/handmade/$name; props=$(cat $d/props)
wt=/tmp/seedwt/$name
git -C /repo worktree remove --force "$wt" >/dev/null 2>&1
git -C /repo worktree add -q --detach "$wt" HEAD || exit 2
trap 'git -C /repo worktree remove --force "$wt" >/dev/null 2>&1' EXIT
git -C "$wt" apply $d/patch.diff || { echo "$name APPLY-FAILED"; exit 3; }
flock /tmp/jsonrpclib-tests.lock timeout 420 /verif/tools/baseline.sh "$wt" >/tmp/seedwt/$name.baseline 2>&1; res="$name baseline=$?"
for p in $props; do
  VERIF_REPO="$wt" /verif/check $p --tier quick >/tmp/seedwt/$name.$p.out 2>&1; rc=$?
  res="$res check_$p=$rc(violations=$(grep -c '^VIOLATION' /tmp/seedwt/$name.$p.out))"
done
echo "$res" | tee -a /verif/seeded/handmade/results.log
