#!/bin/bash
# tools/qs.sh <seed> <property> [extra ./check args]: applies seeded/<seed>/patch.diff in a scratch worktree and runs one check on it.
name=$1; prop=$2; shift 2
d=/verif/seeded/$name; [ -d "$d" ] || d=/verif/seeded/handmade/$name
wt=/tmp/seedwt/qs-$name-$$
mkdir -p /tmp/seedwt
git -C /repo worktree add -q --detach "$wt" HEAD || exit 2
trap 'git -C /repo worktree remove --force "$wt" >/dev/null 2>&1' EXIT
git -C "$wt" apply "$d/patch.diff" || { echo "$name: APPLY-FAILED"; exit 3; }
out=$(VERIF_REPO="$wt" /verif/check $prop --tier quick "$@" 2>&1); rc=$?
echo "$out" | grep -E "^VIOLATION|^  signature|^  observed|HARNESS-ERROR" | cut -c1-260 | head -${QS_LINES:-6}
echo "$name vs $prop: exit=$rc $(echo "$out" | tail -1 | grep -oE 'HOLDS on everything explored|VIOLATED|HARNESS ERROR')"
