#!/bin/bash
# tools/intake3.sh <Cxx> [...]: copies a finished wave-3 sub-agent's output into /verif/seeded and removes its scratch worktree
for p in "$@"; do
  d=/tmp/seed-out3/$p
  for v in f g h; do n=$p$v; if [ -f $d/$n.diff ]; then mkdir -p /verif/seeded/$n; cp $d/$n.diff /verif/seeded/$n/patch.diff; cp $d/${n}_demo.py /verif/seeded/$n/demo.py; cp $d/$n.md /verif/seeded/$n/notes.md 2>/dev/null; echo -n "$n "; fi; done
  git -C /repo worktree remove --force /tmp/wt4/$p 2>/dev/null
done; echo
