#!/venv/bin/python
"""Rewrites the 'as built' table of DESIGN.md section 4 from the evidence files of the last (quick) runs."""
import json, os, re
V = os.path.dirname(os.path.dirname(os.path.abspath(__file__)))
rows = ["| prop | what is enumerated (quick tier; `coverage.rule` of the evidence file) | cases / executions | second pass under `python -O` |", "|---|---|---|---|"]
for i in range(1, 21):
    pid = "C%02d" % i
    e = json.load(open(os.path.join(V, "evidence", pid + ".json")))
    c = e["coverage"]
    n = "{:,}".format(c["evaluations"]).replace(",", " ")
    extra = []
    if c.get("distinct_states"):
        extra.append("%s states" % "{:,}".format(c["distinct_states"]).replace(",", " "))
    h = c.get("notes", {}).get("harnesses_by_deepest_completed_bound")
    if h:
        extra.append("harnesses by deepest completed bound: " + ", ".join("%s: %d" % kv for kv in sorted(h.items())))
    o = c.get("notes", {}).get("python_O_pass")
    rule = c["rule"].replace("|", "\\|")
    rows.append("| %s (%s) | %s | %s%s | %s |" % (pid, e.get("tier", "?"), rule, n, ("; " + "; ".join(extra)) if extra else "",
                                               ("%s cases, exit %s" % ("{:,}".format(o.get("evaluations", 0)).replace(",", " "), o["exit"])) if o else "-"))
p = os.path.join(V, "DESIGN.md")
s = open(p).read()
m = re.search(r"\| prop \| [^\n]*\n\|---[^\n]*\n(?:\| C\d\d[^\n]*\n)+", s)
assert m, "table not found"
s = s[:m.start()] + "\n".join(rows) + "\n" + s[m.end():]
open(p, "w").write(s)
print("table rewritten with %d rows" % (len(rows) - 2))
