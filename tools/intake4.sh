#!/bin/bash
# tools/intake4.sh W1 W2 ...: takes the fourth-wave (cross-property) outputs of /tmp/seed-out4/<W>/ into seeded/<W><x>/ and removes the worktree
cd /verif
for w in "$@"; do
  for x in a b c; do
    src=${OUTDIR:-/tmp/seed-out4}/$w/$w$x
    [ -f $src.diff ] || continue
    d=seeded/$w$x; mkdir -p $d
    cp $src.diff $d/patch.diff; cp ${src}_demo.py $d/demo.py; cp $src.md $d/notes.md 2>/dev/null
    grep -m1 -oE "C[0-9]{2}" $d/notes.md > $d/props
    echo -n "$w$x($(cat $d/props)) "
  done
  git -C /repo worktree remove --force ${WTDIR:-/tmp/wt5}/$w 2>/dev/null
done
echo
