#!/venv/bin/python
"""Regenerates /verif/MANIFEST.json from the check modules that exist.

Run:  cd /verif && /venv/bin/python tools/gen_manifest.py
"""
import importlib
import json
import os
import sys

VERIF = os.path.dirname(os.path.dirname(os.path.abspath(__file__)))
sys.path.insert(0, VERIF)
sys.path.insert(0, "/repo")
import logging

logging.disable(logging.CRITICAL)

BASELINE = (
    "cd /repo && env -u JSONRPCLIB_VERIF /venv/bin/python -m pytest -ra -q -p no:cacheprovider "
    "--timeout=900 --continue-on-collection-errors"
)

ENGINES = [
    {
        "name": "E1-schedule-explorer",
        "path": "mc/sched.py, mc/explore.py",
        "kind_free_text": "stateless model checking of the real code: cooperative scheduler over real OS threads "
        "(shim threading/queue rebound into the library), iterative preemption bounding, virtual clock",
    },
    {
        "name": "E2-fake-network-history-search",
        "path": "mc/env.py",
        "kind_free_text": "explicit enumeration of fault/request histories over a deterministic in-memory socket layer "
        "with a scripted peer; every transition calls the real client/server code",
    },
    {
        "name": "E3-small-scope-enumeration",
        "path": "mc/gen.py, mc/ref/",
        "kind_free_text": "bounded-exhaustive enumeration of inputs/configurations/programs fed to the real code and "
        "compared with reference models written from the property text",
    },
]


def main():
    props = {}
    with open(os.path.join(VERIF, "properties.jsonl")) as f:
        for line in f:
            p = json.loads(line)
            props[p["id"]] = p
    pending = {}
    try:
        with open(os.path.join(VERIF, "tools", "not_claimed.json")) as f:
            pending = json.load(f)
    except FileNotFoundError:
        pass
    checks = []
    not_applicable = []
    serves = {e["name"]: [] for e in ENGINES}
    for pid in sorted(props):
        path = os.path.join(VERIF, "checks", pid.lower() + ".py")
        if not os.path.exists(path) or pid in pending:
            not_applicable.append(
                {"property_id": pid, "reason": pending.get(pid, "check not built yet in this session; not claimed")}
            )
            continue
        mod = importlib.import_module("checks." + pid.lower())
        meta = mod.META
        eng = meta.get("engine", "E3-small-scope-enumeration")
        for e in eng.split("+"):
            serves.setdefault(e, []).append(pid)
        intro = []
        if "E1" in eng:
            intro.append("Stateless model checking of the implementation itself: every thread schedule of the listed harnesses up to the deepest "
                         "completed (preemptions, early timer firings) level is executed on the real code under a scheduler that owns every source of "
                         "nondeterminism (threads, locks, queue, clock, sockets); a verdict is a replayable schedule, and a pass is a coverage statement "
                         "('no schedule within the bound violates the property'), which a test run cannot give.")
        if "E2" in eng:
            intro.append("Explicit enumeration of every history / fault sequence up to the depth bound, each replayed from the initial state through the "
                         "real client and server code over a deterministic in-memory network (validated against kernel sockets where stated).")
        if "E3" in eng:
            intro.append("Small-scope exhaustive enumeration: every term of the stated finite grammar (inputs, configurations, generated programs) up to "
                         "the bound is fed to the real code and judged by a reference model written from the property text; alphabets put one value on "
                         "each side of every branch visible in the anchored code.")
        level_text = " ".join(intro) + " Explored space: " + meta["rule"]
        entry = {
            "property_id": pid,
            "quick_cmd": "./check %s --tier quick" % pid,
            "thorough_cmd": "./check %s --tier thorough" % pid,
            "evidence_file": "/verif/evidence/%s.json" % pid,
            "replay_cmd_template": "./check %s --replay {path}" % pid,
            "engine": eng,
            "level_claimed": {
                "category": meta.get("level", "model_checking"),
                "text": meta.get("level_text", level_text),
                "design_ref": "DESIGN.md section 4, %s" % pid,
            },
            "level_note": "; ".join(meta.get("assumptions", [])) or "bounded alphabets as stated in the evidence file",
            "technique": meta["technique"],
        }
        checks.append(entry)
    engines = []
    for e in ENGINES:
        e = dict(e)
        e["serves_properties"] = sorted(set(serves.get(e["name"], [])))
        engines.append(e)
    hooks_commits = []
    try:
        with open(os.path.join(VERIF, "tools", "hook_commits.json")) as f:
            hooks_commits = json.load(f)
    except FileNotFoundError:
        pass
    manifest = {
        "version": 1,
        "setup_cmd": "./check selftest",
        "hooks": {
            "guard": "JSONRPCLIB_VERIF",
            "enable": "no source hooks: the harness rebinds module attributes (threading, queue, socket, selectors) of the "
            "library and of the stdlib modules it builds on from the outside; JSONRPCLIB_VERIF=1 is exported by ./check but "
            "nothing in /repo reads it",
            "baseline_off_cmd": BASELINE,
            "source_commits": hooks_commits,
            "add_only": True,
        },
        "engines": engines,
        "checks": checks,
        "not_applicable": not_applicable,
        "notes": "All checks read jsonrpclib from /repo's working tree (VERIF_REPO overrides, used for seeded changes in scratch "
        "worktrees). Exit 0 = property held on everything explored, 1 = VIOLATION line(s), 2 = harness error. "
        "known_findings.json lists recorded genuine defects and 'fixed:' records of repaired ones.",
    }
    with open(os.path.join(VERIF, "MANIFEST.json"), "w") as f:
        json.dump(manifest, f, indent=1)
        f.write("\n")
    print("claimed:", [c["property_id"] for c in checks])
    print("not claimed:", [c["property_id"] for c in not_applicable])


if __name__ == "__main__":
    main()
