#!/bin/bash
# tools/stability.sh [seeds...]: every quick check on the unchanged tree under several VERIF_SEED values, from fresh processes;
# prints one line per (seed, property) that did not exit 0 or printed a VIOLATION / HARNESS-ERROR line.
cd /verif
seeds="$@"; [ -z "$seeds" ] && seeds="0 1 2 3 4"
bad=0
for s in $seeds; do
  for p in C01 C02 C03 C04 C05 C06 C07 C08 C09 C10 C11 C12 C13 C14 C15 C16 C17 C18 C19 C20; do
    out=$(VERIF_SEED=$s ./check $p --tier quick 2>&1); rc=$?
    if [ $rc -ne 0 ] || echo "$out" | grep -qE '^(VIOLATION|HARNESS-ERROR)'; then echo "seed=$s $p rc=$rc"; echo "$out" | grep -E '^(VIOLATION|HARNESS-ERROR|  signature)' | head -3; bad=1; fi
    echo "$out" | tail -1 | sed -E "s/^(C[0-9]+).*wall=([0-9.]+)s.*/seed=$s \1 wall=\2s/"
  done
done
exit $bad
