#!/bin/bash
# tools/try_refactor.sh <name> <patch.diff> [props...] - applies a behaviour-preserving change in a scratch worktree and
# runs the quick checks (default: all twenty) against it; every non-zero exit is a false alarm or a harness error to look at.
name=$1; diff=$2; shift 2; props="$@"; [ -z "$props" ] && props="C01 C02 C03 C04 C05 C06 C07 C08 C09 C10 C11 C12 C13 C14 C15 C16 C17 C18 C19 C20"
wt=/tmp/seedwt/$name
mkdir -p /tmp/seedwt
git -C /repo worktree remove --force "$wt" >/dev/null 2>&1
git -C /repo worktree add -q --detach "$wt" HEAD || exit 2
trap 'git -C /repo worktree remove --force "$wt" >/dev/null 2>&1' EXIT
if ! git -C "$wt" apply "$diff" 2>/tmp/seedwt/$name.applyerr; then echo "$name APPLY-FAILED"; exit 3; fi
res="$name"
for p in $props; do
  VERIF_REPO="$wt" /verif/check $p --tier quick >/tmp/seedwt/$name.$p.out 2>&1; rc=$?
  [ $rc -ne 0 ] && res="$res $p=$rc"
done
echo "$res :: done"
