#!/usr/bin/env python3
"""Builds seeded/<id>/meta.json and seeded/RESULTS.md from seeded/results.log (written by tools/seed_all.sh)."""
import json, os, re, sys
V = os.path.dirname(os.path.dirname(os.path.abspath(__file__)))
S = os.path.join(V, "seeded")
rows = {}
history = {}
for line in open(os.path.join(S, "results.log")):
    m = re.match(r"(\S+) prop=(.*?) demo_clean=(\d+)(?: baseline=(\d+))? demo_seeded=(\d+) (.*)", line.strip())
    if not m:
        continue
    name, props, dc, bl, ds, rest = m.groups()
    checks = dict((a, (int(b), int(c))) for a, b, c in re.findall(r"check_(C\d+)=(\d)\(violations=(\d+)\)", rest))
    row = dict(props=props.split(), demo_clean=int(dc), baseline=None if bl is None else int(bl), demo_seeded=int(ds), checks=checks)
    history.setdefault(name, []).append(row)
    prev = rows.get(name)
    # keep the latest run; a run that included the baseline suite wins over later runs that skipped it only for the baseline field
    if prev is not None and row["baseline"] is None:
        row["baseline"] = prev["baseline"]
    rows[name] = row
out = ["| seed | origin | breaks | baseline still passes | demo: clean / seeded | reported by (quick tier) |", "|---|---|---|---|---|---|"]
for name in sorted(os.listdir(S)):
    d = os.path.join(S, name)
    if not os.path.isdir(d) or name not in rows:
        continue
    r = rows[name]
    notes = open(os.path.join(d, "notes.md")).read().strip() if os.path.exists(os.path.join(d, "notes.md")) else ""
    ported = open(os.path.join(d, "ported.txt")).read().strip() if os.path.exists(os.path.join(d, "ported.txt")) else ""
    origin = "reverse of a fix commit" if name.startswith("R") else ("sub-agent, hand-ported to the repaired tree" if ported else "sub-agent")
    kept = r["demo_clean"] == 0 and r["demo_seeded"] != 0 and (r["baseline"] in (0, None))
    meta = {
        "id": name,
        "origin": origin,
        "property_broken": r["props"][0] if r["props"] else name[:3],
        "also_checked_against": r["props"][1:],
        "needs_to_manifest": notes,
        "ported_note": ported,
        "confirmed": {
            "demo_exit_on_clean_tree": r["demo_clean"],
            "baseline_suite_with_change": {0: "62 passed (only the known test_cgi failure)", None: "not run in this pass"}.get(r["baseline"], "FAILED"),
            "demo_exit_with_change": r["demo_seeded"],
            "commands": ["tools/try_seed.sh %s seeded/%s/patch.diff seeded/%s/demo.py '%s'" % (name, name, name, " ".join(r["props"]))],
        },
        "checks": {p: {"exit": e, "violation_signatures": n} for p, (e, n) in r["checks"].items()},
        "first_run_of_the_owning_check": ("reported" if history[name][0]["checks"].get(r["props"][0] if r["props"] else name[:3], (0, 0))[0] == 1
                                          else "missed (the check was strengthened afterwards, see DESIGN.md section 7)"),
        "kept": kept,
    }
    json.dump(meta, open(os.path.join(d, "meta.json"), "w"), indent=1)
    rep = ", ".join("%s (%d signature%s)" % (p, n, "" if n == 1 else "s") for p, (e, n) in sorted(r["checks"].items()) if e == 1) or "**missed**"
    first = "" if meta["first_run_of_the_owning_check"] == "reported" else " (missed at first)"
    out.append("| %s | %s | %s | %s | %d / %d | %s |" % (name, origin, meta["property_broken"], "yes" if r["baseline"] == 0 else ("n/a" if r["baseline"] is None else "NO"),
                                                       r["demo_clean"], r["demo_seeded"], (rep + first) if kept else rep + " (not kept: demonstration does not discriminate)"))
open(os.path.join(S, "RESULTS.md"), "w").write("\n".join(out) + "\n")
print("\n".join(out))
