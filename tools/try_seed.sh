#!/bin/bash
# tools/try_seed.sh <name> <patch.diff> <demo.py> <property> [tier]
# Confirms a seeded change in a scratch worktree of /repo's HEAD: demo passes on the clean tree,
# the change applies, the baseline suite still passes, the demo fails, and the property's check reports it.
name=$1; diff=$2; demo=$3; prop=$4; tier=${5:-quick}
wt=/tmp/seedwt/$name
mkdir -p /tmp/seedwt
git -C /repo worktree remove --force "$wt" >/dev/null 2>&1
git -C /repo worktree add -q --detach "$wt" HEAD || { echo "$name: cannot create worktree"; exit 2; }
trap 'git -C /repo worktree remove --force "$wt" >/dev/null 2>&1' EXIT
res="$name prop=$prop"
(cd "$wt" && timeout 300 /venv/bin/python "$demo" >/dev/null 2>&1); res="$res demo_clean=$?"
if ! git -C "$wt" apply "$diff" 2>/tmp/seedwt/$name.applyerr; then echo "$res APPLY-FAILED: $(head -3 /tmp/seedwt/$name.applyerr)"; exit 3; fi
if [ -z "$SKIP_BASELINE" ]; then
  flock /tmp/jsonrpclib-tests.lock timeout 420 /verif/tools/baseline.sh "$wt" >/tmp/seedwt/$name.baseline 2>&1; res="$res baseline=$?"
fi
(cd "$wt" && timeout 300 /venv/bin/python "$demo" >/dev/null 2>&1); res="$res demo_seeded=$?"
for p in $prop; do
  VERIF_REPO="$wt" /verif/check $p --tier $tier >/tmp/seedwt/$name.$p.out 2>&1; rc=$?
  sigs=$(grep -c '^VIOLATION' /tmp/seedwt/$name.$p.out)
  res="$res check_$p=$rc(violations=$sigs)"
done
echo "$res"
