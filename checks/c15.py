"""C15 - jsonclass round-trips plain data and is side-effect free.

E3: every nesting of list/tuple/set/frozenset/dict over the primitive leaves up
to a depth/width bound is dumped, serialised, reloaded and compared
type-exactly; a deep snapshot of the argument taken before each call must equal
the one taken after, on success and on every failure (malformed descriptors).
"""
import itertools
import json

from jsonrpclib import jsonclass
import jsonrpclib

from mc import gen
from mc.core import Out, drive

LEAVES = [None, True, False, 0, 1, -1, 2 ** 64, 0.0, -0.0, 1.5, 5e-324, 1.7976931348623157e308, "", "a", "é", "\U0001F600"]
RED = [None, True, 0, 1.5, "a", 2 ** 64, -0.0, "é"]
KEYS = ["k", "", "é", 1, (1, 2), None]


def hashable(v):
    try:
        hash(v)
        return True
    except TypeError:
        return False


def containers(elems, width, keys):
    """Every list/tuple/set/frozenset/dict of at most `width` members over `elems`."""
    for w in range(width + 1):
        for combo in itertools.product(elems, repeat=w):
            yield list(combo)
            yield tuple(combo)
    hs = [e for e in elems if hashable(e)]
    for w in range(width + 1):
        for combo in itertools.combinations(range(len(hs)), w):
            members = [hs[i] for i in combo]
            yield set(members)
            yield frozenset(members)
    for w in range(width + 1):
        for ks in itertools.combinations(keys, w):
            for combo in itertools.product(elems, repeat=w):
                yield dict(zip(ks, combo))


def wrap(kind, members):
    """One container of the given kind holding the members (hashable kinds only get hashable members: the caller sees to it)."""
    if kind == "list":
        return list(members)
    if kind == "tuple":
        return tuple(members)
    if kind == "set":
        return set(members)
    if kind == "frozenset":
        return frozenset(members)
    return {"k%d" % i: m for i, m in enumerate(members)}


def kind_chains(depth):
    """Every chain of container kinds of the given depth around one or two leaves (each kind inside each other kind, in every order)."""
    kinds = ["list", "tuple", "set", "frozenset", "dict"]
    for chain in itertools.product(kinds, repeat=depth):
        for leaves in ((1,), (2, "a"), ()):
            v = wrap(chain[-1], leaves)
            ok = True
            for k in reversed(chain[:-1]):
                if k in ("set", "frozenset") and not hashable(v):
                    ok = False
                    break
                v = wrap(k, (v,) if not leaves or k in ("set", "frozenset") else (v, 0))
            if ok:
                yield v


def terms(tier):
    for v in LEAVES:
        yield v
    for d in ((3,) if tier == "quick" else (3, 4)):
        for v in kind_chains(d):
            yield v
    d1 = list(containers(LEAVES, 2, KEYS))
    for v in d1:
        yield v
    d1_red = list(containers(RED, 2, KEYS[:3] + [1]))
    small = RED + [[], [0], (), (1,), set(), {0}, frozenset(), frozenset({"a"}), {}, {"k": None}, {1: [0]}, [(1,)], ({"a": 1},)]
    if tier == "quick":
        # depth 2: width 1 over every reduced depth-1 term, width 2 over one representative per constructor kind
        # and over every depth-1 term built from the five smallest reduced leaves
        for v in containers(d1_red, 1, ["k", 1]):
            if v not in ([], (), set(), frozenset(), {}):
                yield v
        for v in containers(small, 2, ["k", "é"]):
            yield v
        d1_tiny = list(containers(RED[:5], 2, ["k", 1]))
        for v in containers(RED[:3] + d1_tiny, 2, ["k"]):
            yield v
    else:
        for v in containers(RED + d1_red, 2, ["k", "é", 1]):
            yield v
        d2_small = list(containers(small, 1, ["k"]))
        for v in containers(small + d2_small[:60], 2, ["k"]):
            yield v


def snapshot(x, ids=True):
    """Deep structural snapshot: types, values, key sets and the identity of every container."""
    if isinstance(x, (list, tuple)):
        return (type(x).__name__, id(x) if ids else 0, tuple(snapshot(i, ids) for i in x))
    if isinstance(x, (set, frozenset)):
        return (type(x).__name__, id(x) if ids else 0, tuple(sorted((snapshot(i, ids) for i in x), key=repr)))
    if isinstance(x, dict):
        return ("dict", id(x) if ids else 0, tuple(sorted(((gen.tkey(k), snapshot(v, ids)) for k, v in x.items()), key=repr)))
    return gen.tkey(x)


def only_json_types(d):
    if d is None or isinstance(d, (bool, int, float, str)):
        return True
    if isinstance(d, list):
        return all(only_json_types(i) for i in d)
    if type(d) is dict:
        return all(only_json_types(v) for v in d.values())
    return False


def string_keys(d):
    if isinstance(d, list):
        return all(string_keys(i) for i in d)
    if isinstance(d, dict):
        return all(isinstance(k, str) and string_keys(v) for k, v in d.items())
    return True


def match(x, y):
    """y (loaded) equals x (original) up to container normalisation, primitives type-exact."""
    if isinstance(x, (list, tuple)):
        return type(y) is list and len(y) == len(x) and all(match(a, b) for a, b in zip(x, y))
    if isinstance(x, (set, frozenset)):
        if type(y) is not list or len(y) != len(x):
            return False
        xs = list(x)
        return any(all(match(a, b) for a, b in zip(perm, y)) for perm in itertools.permutations(xs))
    if isinstance(x, dict):
        if type(y) is not dict or len(y) != len(x):
            return False
        ky = {repr(gen.tkey(k)): v for k, v in y.items()}
        for k, v in x.items():
            kk = repr(gen.tkey(k))
            if kk not in ky or not match(v, ky[kk]):
                return False
        return True
    return gen.tkey(x) == gen.tkey(y)


def check_roundtrip(x):
    out = Out(cls=type(x).__name__)
    before = snapshot(x)
    try:
        d = jsonclass.dump(x)
    except Exception as ex:
        return out.bad("C15/dump-raises-%s" % type(ex).__name__, "dump(%r) raised %r" % (x, ex))
    if snapshot(x) != before:
        out.bad("C15/dump-modifies-its-argument", "dump(%r) changed its argument" % (x,))
    if not only_json_types(d):
        return out.bad("C15/dump-output-not-plain-json-types", "dump(%r) = %r contains something else than dict/list/primitives" % (x, d))
    if isinstance(x, (list, tuple, set, frozenset, dict)) and d is x:
        out.bad("C15/dump-returns-its-argument", "dump(%r) returned the very container it was given" % (x,))
    if string_keys(d):
        try:
            back = jsonrpclib.jloads(jsonrpclib.jdumps(d))
        except Exception as ex:
            return out.bad("C15/dump-output-not-serialisable", "jdumps(dump(%r)) raised %r" % (x, ex))
        if not gen.same(back, d):
            out.bad("C15/json-backend-changes-dump-output", "jloads(jdumps(%r)) = %r" % (d, back))
    # the remaining parameters of dump() concern objects only: for plain data they must not change the outcome
    for kw in ({"ignore": ["k", "", "é", 1, None]}, {"ignore_attribute": "k"}, {"serialize_method": "k"}, {"ignore": ("k",), "ignore_attribute": "", "serialize_method": ""}):
        try:
            d2 = jsonclass.dump(x, **kw)
        except Exception as ex:
            out.bad("C15/dump-raises-%s" % type(ex).__name__, "dump(%r, **%r) raised %r" % (x, kw, ex))
            continue
        if snapshot(d2, ids=False) != snapshot(d, ids=False):
            out.bad("C15/dump-of-plain-data-depends-on-object-parameters", "dump(%r, **%r) = %r, without the parameter %r" % (x, kw, d2, d))
        if snapshot(x) != before:
            out.bad("C15/dump-modifies-its-argument", "dump(%r, **%r) changed its argument" % (x, kw))
    dsnap = snapshot(d)
    try:
        y = jsonclass.load(d)
    except Exception as ex:
        return out.bad("C15/load-raises-%s" % type(ex).__name__, "load(dump(%r)) raised %r" % (x, ex))
    if snapshot(d) != dsnap:
        out.bad("C15/load-modifies-its-argument", "load(%r) changed its argument" % (d,))
    if not match(x, y):
        out.bad("C15/roundtrip-differs", "load(dump(%r)) = %r" % (x, y))
    return out


def leg_roundtrip(part, tier, shard, nshards):
    drive(part, "roundtrip", terms(tier), shard, nshards, check_roundtrip)


# -- failure cases: purity of load (and dump) when they raise -----------------------

BAD = [
    ["", []], ["bad name!", []], ["no_such_module_zz.Cls", []], ["decimal.NoSuchClass", []], [], ["decimal.Decimal"],
    ["decimal.Decimal", "1.5"], ["decimal.Decimal", 5], ["decimal.Decimal", None], ["decimal.Decimal", ["not-a-number"]],
    ["decimal.Decimal", [1, 2, 3, 4, 5]], ["decimal.Decimal", {"nokw": 1}], "decimal.Decimal", 5, None, {}, [5, []], [None, []],
    ["é.x", []], ["Plain", []], ["mc.ref.beans.Plain", [1, 2]],
]
GOOD_BEAN = ["mc.ref.beans.Plain", []]


def contexts(x):
    """Structures holding the failing descriptor `x` somewhere."""
    yield x
    yield [x]
    yield [0, x, "a"]
    yield {"k": x}
    yield {"a": 1, "k": [x], "z": None}
    yield [{"k": [x]}]
    yield {"__jsonclass__": GOOD_BEAN, "field": x}
    yield {"__jsonclass__": GOOD_BEAN, "a": 1, "field": [x], "z": {"y": 2}}
    yield [{"__jsonclass__": GOOD_BEAN, "inner": {"__jsonclass__": GOOD_BEAN, "deep": x}}]
    yield {"outer": {"__jsonclass__": ["decimal.Decimal", ["1.5"]], "extra": x}}


# well-formed descriptors whose *members* are unusual: names the loader may refuse or fail to set (at whatever point it does, the argument is left as it was)
ODD_MEMBERS = ["__doc__", "__class__", "__dict__", "__init__", "__eq__", "__slots__", "__module__", "__weakref__", "__jsonclass", "_private", "a b", "", "1", "é", "ro", "b", "a"]
ODD_CLASSES = [["mc.ref.beans.Plain", []], ["mc.ref.beans.Slotted", []], ["mc.ref.beans.ReadOnly", []], ["decimal.Decimal", ["1.5"]], ["fractions.Fraction", [1, 3]]]


class _Missing(dict):
    def __missing__(self, key):
        return ["made-up", []]


class _MissingRaises(dict):
    def __missing__(self, key):
        raise KeyError(key)


def _mappings():
    import collections

    dd = collections.defaultdict(list)
    dd["k"].append(1)
    dl = collections.defaultdict(lambda: ["decimal.Decimal", ["1"]])
    dl["a"] = None
    return [dd, dl, collections.defaultdict(dict), _Missing(a=1), _Missing(), _MissingRaises(k=[1]), collections.OrderedDict([("b", 1), ("a", (2,))]), collections.Counter("aab"),
            [dd], {"k": dl}, (_Missing(a=1),), {"o": {"i": collections.defaultdict(int)}}]


def failure_cases(tier):
    # mappings that are dicts with a lookup protocol of their own: load and dump treat them as the plain dict with the same items, and leave them alone
    for i in range(len(_mappings())):
        yield ("MAPPING", i, "load")
        yield ("MAPPING", i, "dump")
    for ki in range(len(ODD_MEMBERS)):
        for cls in ODD_CLASSES:
            for val in ("v", [1], {"__jsonclass__": GOOD_BEAN, "z": 2}):
                for ci in range(10):
                    yield (("MEMBER", ki, cls, val), ci, "load")
    for bad in BAD:
        x = {"__jsonclass__": bad}
        n = len(list(contexts(x)))
        for ci in range(n):
            yield (bad, ci, "load")
    # dump failures: objects whose serialisation method raises, placed inside containers
    for ci in range(6):
        yield ("BADSER", ci, "dump")


def check_failure(case):
    bad, ci, what = case
    out = Out(cls="%s-failure" % what)
    if bad == "MAPPING":
        def plain(v):
            if isinstance(v, dict):
                return {k: plain(x) for k, x in v.items()}
            return type(v)(plain(i) for i in v) if isinstance(v, (list, tuple)) else v
        x = _mappings()[ci]
        fn = jsonclass.load if what == "load" else jsonclass.dump
        out.cls = "mapping-%s" % what
        before = snapshot(x, ids=False)
        try:
            want = ("ok", snapshot(fn(plain(x)), ids=False))
        except Exception as ex:
            want = ("raises", type(ex).__name__)
        try:
            got = ("ok", snapshot(fn(x), ids=False))
        except Exception as ex:
            got = ("raises", type(ex).__name__)
        if snapshot(x, ids=False) != before:
            out.bad("C15/%s-modifies-its-argument" % what, "%s(%r) left its argument as %r" % (what, _mappings()[ci], x))
        if got != want:
            out.bad("C15/%s-of-mapping-differs-from-plain-dict" % what, "%s(%r): %r, for the plain dict with the same items: %r" % (what, _mappings()[ci], got, want))
        return out
    if what == "load":
        if isinstance(bad, tuple) and bad[0] == "MEMBER":
            x = json.loads(json.dumps({"__jsonclass__": bad[2], "first": 1, ODD_MEMBERS[bad[1]]: bad[3], "last": [2]}))
            bad = x["__jsonclass__"]
            struct = list(contexts(x))[ci]
            before = snapshot(struct)
            try:
                jsonclass.load(struct)
                out.cls = "load-accepted"
            except Exception as ex:
                out.cls = "load-raises-%s" % type(ex).__name__
            if snapshot(struct) != before:
                out.bad("C15/load-modifies-its-argument-on-failure" if out.cls != "load-accepted" else "C15/load-modifies-its-argument",
                        "load of a structure holding %r: argument is %r afterwards (%s)" % (case, struct, out.cls))
            return out
        x = {"__jsonclass__": json.loads(json.dumps(bad))}
        struct = list(contexts(x))[ci]
        before = snapshot(struct)
        try:
            r = jsonclass.load(struct)
            out.cls = "load-accepted"
        except Exception as ex:
            out.cls = "load-raises-%s" % type(ex).__name__
        if snapshot(struct) != before:
            out.bad("C15/load-modifies-its-argument-on-failure" if out.cls != "load-accepted" else "C15/load-modifies-its-argument",
                    "load(%r): argument is %r afterwards (%s)" % (list(contexts({"__jsonclass__": bad}))[ci], struct, out.cls))
        return out
    from mc.ref.server import BadSer

    b = BadSer()
    struct = [b, [b], {"k": b}, [1, {"k": [b]}], (b,), {"k": (1, [b])}][ci]
    before = snapshot(struct)
    try:
        jsonclass.dump(struct)
        out.cls = "dump-accepted"
    except Exception as ex:
        out.cls = "dump-raises-%s" % type(ex).__name__
    if snapshot(struct) != before:
        out.bad("C15/dump-modifies-its-argument-on-failure", "dump(%r) changed its argument" % (struct,))
    return out


def leg_failures(part, tier, shard, nshards):
    drive(part, "failures", failure_cases(tier), shard, nshards, check_failure)


# -- long histories: the translator must behave on its N-th use as on its first -------------------------------

AFTER = [[1, (2, {3}), {"k": [frozenset({"a"})]}], {"k": {"a": [(), {1: None}]}}, [[[[[[[[0]]]]]]]], (1.5, "é", None, True)]


def longrun_cases(tier):
    n = 3000 if tier == "thorough" else 400
    for kind in ("failing-dumps", "failing-loads", "deep-failing-dumps", "successes", "mixed"):
        yield (kind, n)


def check_longrun(case):
    kind, n = case
    from mc.ref.server import BadSer

    out = Out(cls="longrun/" + kind)
    b = BadSer()
    bad_load = {"k": [{"__jsonclass__": ["no_such_module_zz.Cls", []]}]}
    for i in range(n):
        try:
            if kind == "failing-dumps" or (kind == "mixed" and i % 3 == 0):
                jsonclass.dump([b])
            elif kind == "deep-failing-dumps" or (kind == "mixed" and i % 3 == 1):
                jsonclass.dump({"k": [1, (2, [{"z": [b]}])]})
            elif kind == "failing-loads" or (kind == "mixed" and i % 3 == 2):
                jsonclass.load(bad_load)
            else:
                jsonclass.load(jsonclass.dump(AFTER[i % len(AFTER)]))
        except Exception:
            pass
    for x in AFTER:
        sub = check_roundtrip(x)
        for sig, detail in sub.viols:
            out.bad(sig.replace("C15/", "C15/after-%d-uses/" % n, 1), "after %d %s: %s" % (n, kind, detail))
    return out


def leg_longrun(part, tier, shard, nshards):
    drive(part, "long-histories", longrun_cases(tier), shard, nshards, check_longrun)


LEGS = {"roundtrip": leg_roundtrip, "failures": leg_failures, "long-histories": leg_longrun}

META = {
    "technique": "bounded-exhaustive enumeration of container nestings against a structural reference (type-exact comparison, deep before/after snapshots)",
    "rule": "roundtrip: every list/tuple/set/frozenset/dict of width <=2 over 16 primitive leaves (depth 1), every chain of 3 (thorough 4) container kinds in every order around 0-2 leaves, plus depth 2 over reduced alphabets "
    "(quick: width 1 over all reduced depth-1 terms and width 2 over one representative per constructor; thorough: width 2 over all reduced depth-1 "
    "terms, and depth 3 over representatives); failures: 21 malformed/unresolvable descriptors x 10 embedding contexts (plain containers, bean fields, "
    "nested beans), 17 unusual member names (dunder, private, non-identifier, read-only property, undeclared slot) x 5 classes x 3 member values x the same contexts in well-formed descriptors, and a bean whose serialisation method raises x 6 contexts; every roundtrip term is also dumped with each of dump()'s object-only parameters "
    "(ignore, ignore_attribute, serialize_method) set, which must not change the outcome for plain data; long-histories: 400 (thorough 3000) failing dumps / "
    "failing nested dumps / failing loads / successes / a mix, followed by round trips of 4 nested terms (the N-th use behaves like the first); every case is non-trivial; distinct by repr of the term",
    "bounds": {"quick": {"depth": 2, "width": 2}, "thorough": {"depth": 3, "width": 2}},
    "assumptions": ["bytes are excluded (property text)", "dict keys range over {'k','', 'é', 1, (1,2), None}"],
}


def replay(case):
    if case["leg"] == "long-histories":
        return check_longrun(eval(case["case"], {"__builtins__": {}}, {})).viols
    if case["leg"] == "failures":
        return check_failure(eval(case["case"], {"__builtins__": {}}, {})).viols
    x = eval(case["case"], {"__builtins__": {}, "set": set, "frozenset": frozenset}, {})
    return check_roundtrip(x).viols
