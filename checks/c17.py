"""C17 - wire framing is exact and body reassembly is independent of chunking.

E3/E2: (a) request framing observed by a scripted peer behind the real
HTTPConnection; (b) request target for every URL of a grammar, scheme
rejection; (c) every composition of short multi-byte bodies fed to the response
parser pair; (d) response bodies around the 1024-byte read size delivered in
every split with <=2 cut points, identity and gzip, with and without
Content-Length; (e) the real do_POST with short reads and with a body that
straddles the 10 MiB read chunk; (f) reply framing of the HTTP handler and of
the CGI handler.
"""
import io
import itertools
import json
import sys

import jsonrpclib
from jsonrpclib.config import Config
import jsonrpclib.jsonrpc as J
from jsonrpclib.SimpleJSONRPCServer import CGIJSONRPCRequestHandler, SimpleJSONRPCDispatcher

from mc import env, gen, httpdrive
from mc.core import Out, drive
from mc.loop import _Base

# ---------------------------------------------------------------------------
# (a) client -> wire

PAYLOADS = ["", "a", "a" * 1023, "a" * 1024, "a" * 1025, "é", "€", "\U0001F600", "é€\U0001F600 mixed \u0000 \"q\" \\", "a" * 1023 + "é"]
CTYPES = ["application/json-rpc", "application/json", "text/x-\u00e9"]


def cases_a(tier):
    for p in range(len(PAYLOADS)):
        for ct in CTYPES:
            for kind in ("call", "notify", "batch", "kwargs", "raw-text", "raw-bytes"):
                for scheme in ("tcp", "unix"):
                    yield (p, ct, kind, scheme)


def check_a(case):
    p, ct, kind, scheme = case
    out = Out(cls="request-framing/%s" % kind)
    payload = PAYLOADS[p]
    cfg = Config(content_type=ct)
    peer = env.ScriptPeer()
    url = "http://h.test/rpc" if scheme == "tcp" else "unix+http://./s.sock"
    with env.client_net(peer):
        proxy = jsonrpclib.ServerProxy(url, config=cfg)
        try:
            if kind == "call":
                proxy.echo(payload)
            elif kind == "kwargs":
                proxy.echo(t=payload)
            elif kind == "notify":
                proxy._notify.echo(payload)
            elif kind in ("raw-text", "raw-bytes"):
                # a request text that is not pure ASCII (what a JSON backend without ASCII escaping produces), given to the
                # transport the way ServerProxy does: the declared length is that of the bytes sent
                text = json.dumps({"jsonrpc": "2.0", "method": "echo", "params": [payload], "id": 1}, ensure_ascii=False)
                t = proxy("transport")
                host = "h.test" if scheme == "tcp" else "."
                t.request(host, "/rpc", text if kind == "raw-text" else text.encode("utf-8"))
            else:
                mc = jsonrpclib.MultiCall(proxy)
                mc.echo(payload)
                mc._notify.echo(payload)
                mc.echo(payload + "2")
                list(mc())
        except Exception as ex:
            return out.bad("C17/client-request-raises-%s" % type(ex).__name__, "%r raised %r" % (case, ex))
    if len(peer.requests) != 1:
        return out.bad("C17/request-count", "%r: %d requests on the wire" % (case, len(peer.requests)))
    req = peer.requests[0]
    cl = req.header_values("content-length")
    # the peer stops reading at the declared length: whatever follows stays in its buffer
    if len(cl) != 1:
        out.bad("C17/request-content-length-count", "%r: Content-Length lines %r" % (case, cl))
    else:
        try:
            json.loads(req.body.decode("utf-8"))
        except Exception as ex:
            out.bad("C17/request-content-length-wrong", "%r: body cut at the declared length %s is not the JSON text sent (%r)" % (case, cl[0], ex))
    ctl = req.header_values("content-type")
    if ctl != [ct]:
        out.bad("C17/request-content-type", "%r: Content-Type lines %r, configured %r" % (case, ctl, ct))
    return out


# (a2) several requests on one proxy / one keep-alive connection: framing must not depend on the previous exchange


def cases_a2(tier):
    n = len(PAYLOADS)
    L = 3
    for seq in itertools.product(range(n), repeat=L):
        if tier == "quick" and (seq[0] + 2 * seq[1] + 3 * seq[2]) % 5:
            continue
        for scheme in ("tcp", "unix"):
            yield (seq, scheme)


def check_a2(case):
    seq, scheme = case
    out = Out(cls="request-sequence")
    peer = env.ScriptPeer()
    url = "http://h.test/rpc" if scheme == "tcp" else "unix+http://./s.sock"
    with env.client_net(peer):
        proxy = jsonrpclib.ServerProxy(url)
        for step, p in enumerate(seq):
            try:
                r = proxy.echo(PAYLOADS[p])
            except Exception as ex:
                return out.bad("C17/client-request-raises-%s" % type(ex).__name__, "%r step %d raised %r" % (case, step, ex))
            if r != PAYLOADS[p]:
                return out.bad("C17/request-sequence/body-or-framing-depends-on-previous-request", "%r step %d: echoed %r" % (case, step, r[:40] if isinstance(r, str) else r))
    if len(peer.requests) != len(seq):
        return out.bad("C17/request-count", "%r: %d requests on the wire" % (case, len(peer.requests)))
    for step, req in enumerate(peer.requests):
        cl = req.header_values("content-length")
        if len(cl) != 1 or cl[0] != str(len(req.body)):
            out.bad("C17/request-content-length-wrong", "%r step %d: Content-Length lines %r, body of %d bytes" % (case, step, cl, len(req.body)))
        try:
            if json.loads(req.body.decode("utf-8"))["params"] != [PAYLOADS[seq[step]]]:
                out.bad("C17/request-sequence/body-or-framing-depends-on-previous-request", "%r step %d: body carries other params" % (case, step))
        except Exception as ex:
            out.bad("C17/request-content-length-wrong", "%r step %d: body is not the JSON text sent (%r)" % (case, step, ex))
    return out


# ---------------------------------------------------------------------------
# (b) request target and scheme handling

class RecTransport(_Base):
    def request(self, host, handler, request_body, verbose=0):
        self.sent.append((host, handler, request_body))
        return ""


AUTHS = ["h", "h:81", "u:p@h"]
PATHS = ["", "/", "/a", "/a/b/", "/a%20b", "/%C3%A9", "//x", "/a.b", "/a+b", "/%2F", "/%7e", "/%c3%a9", "/%E9", "/a=b&c", "/%31"]
# every printable ASCII character inside a path (';', '?' and '#' delimit other URL components: property domain)
PATHS += ["/a%sb" % chr(c) for c in range(0x21, 0x7f) if chr(c) not in ";?#" and not chr(c).isalnum()] + ["/{x}|[y]^`\\\"<>", "/~user/$1/(a)*!'", "/a,b@c:d"]
QUERIES = [None, "q=1", "a=1&b=2", "q=%20%26%3D", "=", "a=b=c", "?x", "%C3%A9=1", "q=a+b", "q=%2f%7E", "a", "a=1&a=2"]
SCHEMES = ["http", "HTTP", "https", "unix+http"]
BAD_SCHEMES = ["", "ftp", "ws", "file", "unix", "unix+ftp", "unix+https", "httpx", "http+unix", "unix+", "+http", "unixhttp", "jsonrpc",
               "git+http", "svn+https", "tcp+http", "x+unix+http", "unix+unix+http", "http+http", "a+b+http", "unix+http+x", "unix-http", "unix http"]


def cases_b(tier):
    base = 15  # the paths beyond the first 15 vary one character each: they are combined with 3 queries only
    for scheme in SCHEMES:
        for auth in AUTHS:
            for pi, path in enumerate(PATHS):
                for q in (QUERIES if pi < base else (None, "q=1", "q=%2f%7E")):
                    yield ("rec", scheme, auth, path, q)
    for scheme in ("http", "unix+http"):
        for pi, path in enumerate(PATHS):
            for q in (QUERIES if pi < base else (None, "q=a+b")):
                yield ("net", scheme, "h", path, q)
    for scheme in BAD_SCHEMES:
        for tail in ("h/p", "h", "h/p?q=1"):
            yield ("bad", scheme, tail, None, None)
            if scheme != "unix+https":
                # the scheme is rejected whoever provides the transport (unix+https is only refused for lack of a built-in
                # transport: with a caller-supplied one the library accepts it, and the property does not say otherwise)
                yield ("bad", scheme, tail, "transport-given", None)


def expected_target(scheme, path, q):
    if scheme.lower().startswith("unix+"):
        base = "/"
    else:
        base = path or "/"
    return base + ("?" + q if q else "")


def check_b(case):
    mode, scheme, auth, path, q = case
    out = Out(cls="target/%s/%s" % (mode, scheme))
    if mode == "bad":
        url = "%s://%s" % (scheme, auth) if scheme else "//" + auth
        try:
            if path == "transport-given":
                jsonrpclib.ServerProxy(url, transport=RecTransport())
            else:
                jsonrpclib.ServerProxy(url)
        except IOError:
            return out
        except Exception as ex:
            return out.bad("C17/unsupported-scheme-raises-%s" % type(ex).__name__, "ServerProxy(%r) raised %r, expected IOError" % (url, ex))
        return out.bad("C17/unsupported-scheme-accepted", "ServerProxy(%r) was accepted" % (url,))
    url = "%s://%s%s%s" % (scheme, auth, path, "?" + q if q is not None else "")
    want = expected_target(scheme, path, q)
    if mode == "rec":
        t = RecTransport()
        try:
            p = jsonrpclib.ServerProxy(url, transport=t)
            p._notify.m()
        except Exception as ex:
            return out.bad("C17/valid-url-raises-%s" % type(ex).__name__, "ServerProxy(%r) raised %r" % (url, ex))
        host, handler, body = t.sent[-1]
        if handler != want:
            out.bad("C17/request-target-altered/%s" % ("unix" if scheme.startswith("unix") else "http"), "url %r -> target %r, expected %r" % (url, handler, want))
        if host != auth:
            out.bad("C17/request-host-altered", "url %r -> host %r" % (url, host))
        return out
    peer = env.ScriptPeer()
    addrs = []
    with env.client_net(peer):
        import http.client
        orig = env.PeerSocket.connect

        def rec_connect(self, addr):
            addrs.append(addr)
            return orig(self, addr)

        env.PeerSocket.connect = rec_connect
        try:
            p = jsonrpclib.ServerProxy(url)
            p.echo("t")
        except Exception as ex:
            return out.bad("C17/valid-url-raises-%s" % type(ex).__name__, "ServerProxy(%r) raised %r" % (url, ex))
        finally:
            env.PeerSocket.connect = orig
    if not peer.requests:
        return out.bad("C17/request-count", "url %r: nothing on the wire" % (url,))
    got = peer.requests[-1].target
    if got != want:
        out.bad("C17/request-target-altered/%s" % ("unix" if scheme.startswith("unix") else "http"), "url %r -> request line %r, expected target %r" % (url, peer.requests[-1].request_line, want))
    if scheme.startswith("unix") and path:
        import os
        if not addrs or addrs[-1] != os.path.abspath(path):
            out.bad("C17/unix-socket-path", "url %r connected to %r, expected the URL path %r" % (url, addrs, os.path.abspath(path)))
    return out


# ---------------------------------------------------------------------------
# (c) parser seam: every composition

SHORT = ["é", "€", "\U0001F600", "aé", "é€", "{\"é\":\"€\"}", "\U0001F600\U0001F600", "[\"\U0001F600é\"]", "aé€b", "\"\u00e9\u20ac\U0001F600\"", "ab", "",
         "\ufeff", "\ufeff[1]", "\ufeff\"é\"", "\"\x00\"", " \ufeff"]


LONGER = ["{\"é\":\"€\U0001F600\"}", "[\"\U0001F600é€\",1]", "\"ééééééé\"", "{\"\U0001F600\":[\"é€\",null]}", "\ufeff[\"\U0001F600\",\"€é\"]"]


def cases_c(tier):
    for i, s in enumerate(SHORT + (LONGER if tier == "thorough" else [])):
        b = s.encode("utf-8")
        if len(b) > (23 if tier == "thorough" else 14):
            continue
        for comp in gen.compositions(len(b)):
            yield (i, tuple(comp))


def check_c(case):
    i, comp = case
    text0 = (SHORT + LONGER)[i]
    b = text0.encode("utf-8")
    out = Out(cls="parser/%d-pieces" % len(comp))
    parser, target = J.Transport(Config()).getparser()  # through an instance: works for static and instance methods alike
    try:
        for piece in gen.cut(b, comp):
            parser.feed(piece)
        parser.close()
        text = target.close()
    except Exception as ex:
        return out.bad("C17/response-parser-raises-%s" % type(ex).__name__, "%r cut as %r raised %r" % (b, comp, ex))
    if text != text0:
        out.bad("C17/response-reassembly-depends-on-chunking", "%r cut as %r reassembled as %r" % (b, comp, text))
    return out


# ---------------------------------------------------------------------------
# (d) response through the stack


def body_with_char_at(size, offset, ch):
    """JSON-RPC reply text of `size` bytes whose multi-byte character `ch` starts at byte `offset`."""
    cb = ch.encode("utf-8")
    prefix = b'{"jsonrpc":"2.0","id":1,"result":"'
    suffix = b'"}'
    inner = size - len(prefix) - len(suffix)
    pos = offset - len(prefix)
    if inner < len(cb) or pos < 0 or pos + len(cb) > inner:
        return None
    return prefix + b"a" * pos + cb + b"a" * (inner - pos - len(cb)) + suffix


def cases_d(tier):
    sizes = [1022, 1023, 1024, 1025, 1026, 2047, 2048, 2049, 4099]
    chars = ["é", "€", "\U0001F600"]
    for size in sizes:
        for ch in chars:
            n = len(ch.encode("utf-8"))
            offs = set()
            for m in (1024, 2048, 3072, 4096):
                for o in range(m - n, m + 1):
                    offs.add(o)
            for off in sorted(offs):
                if body_with_char_at(size, off, ch) is None:
                    continue
                for enc in ("identity", "gzip"):
                    for framing in ("length", "close"):
                        for cuts in ("whole", "at-1024", "bytewise-window", "two-cuts"):
                            if tier == "quick" and enc == "gzip" and cuts not in ("whole", "two-cuts"):
                                continue
                            yield (size, ch, off, enc, framing, cuts)
    for small in (0, 1, 5):
        yield (small, "", 0, "identity", "length", "whole")


def check_d(case):
    size, ch, off, enc, framing, cuts = case
    out = Out(cls="response/%s/%s/%s" % (enc, framing, cuts))
    if ch:
        body = body_with_char_at(size, off, ch)
    else:
        body = b"" if size == 0 else (b'{"jsonrpc":"2.0","id":1,"result":' + b"1" * size + b"}")
    want_text = body.decode("utf-8")
    wire = env.gzip_bytes(body) if enc == "gzip" else body

    def responder(peer, req, parsed):
        extra = ["Content-Encoding: gzip"] if enc == "gzip" else []
        data = env.http_resp(200, "OK", wire, extra=extra, length=framing == "length", ka=framing == "length")
        return data, framing != "length"

    def chunker(total):
        head = total - len(wire)
        if cuts == "whole":
            return [total]
        if cuts == "at-1024":
            sizes = [head]
            left = len(wire)
            while left > 0:
                sizes.append(min(1024, left))
                left -= min(1024, left)
            return sizes
        if cuts == "bytewise-window":
            # deliver byte by byte around the character, whole otherwise
            lo = max(0, off - 2)
            hi = min(len(wire), off + 6)
            return [head + lo] + [1] * (hi - lo) + ([len(wire) - hi] if len(wire) > hi else [])
        lo = min(len(wire), off + 1)
        hi = min(len(wire), off + 2)
        return [p for p in (head + lo, hi - lo, len(wire) - hi) if p > 0]

    peer = env.ScriptPeer(responder=responder, chunker=chunker)
    hist = jsonrpclib.history.History()
    with env.client_net(peer):
        proxy = jsonrpclib.ServerProxy("http://h.test/rpc", history=hist)
        try:
            r = proxy.echo("x") if body else proxy._notify.echo("x")
        except Exception as ex:
            return out.bad("C17/response-reassembly-raises-%s" % type(ex).__name__, "%r raised %r" % (case, ex))
    got = hist.responses[-1] if hist.responses else None
    if got != want_text:
        out.bad("C17/response-reassembly-depends-on-chunking", "%r: the text handed to the client differs from the decoding of the whole (lengths %s vs %d)"
                % (case, len(got) if got is not None else None, len(want_text)))
    return out


# (d2) a response that follows a failed exchange on the same proxy must not contain anything of the failed one


def cases_d2(tier):
    for fault in ("truncated-length", "truncated-close-gzip", "reset-mid-body", "non-json-big", "status-500-big"):
        for ch in ("é", "\U0001F600"):
            for size in (1030, 2100, 3000):
                for scheme in ("tcp", "unix"):
                    yield (fault, ch, size, scheme)


def check_d2(case):
    fault, ch, size, scheme = case
    out = Out(cls="response-after-fault/" + fault)
    import base64
    import hashlib
    seed, blocks = ch.encode("utf-8"), []
    while sum(map(len, blocks)) < size + 1500:
        seed = hashlib.sha256(seed).digest()
        blocks.append(base64.b64encode(seed))
    junk = (b'"' + ch.encode("utf-8") * 8 + b"".join(blocks))  # hard to compress: a truncated gzip stream fails after several read blocks
    state = {"n": 0}
    good = ('{"jsonrpc":"2.0","id":2,"result":"%s"}' % (ch * 40)).encode("utf-8")

    def responder(peer, req, parsed):
        state["n"] += 1
        if state["n"] == 1:
            if fault == "truncated-length":
                return env.http_resp(200, "OK", junk + b"x" * 64)[:-64], True
            if fault == "truncated-close-gzip":
                return env.http_resp(200, "OK", env.gzip_bytes(junk)[:-20], extra=["Content-Encoding: gzip"], length=False, ka=False), True
            if fault == "reset-mid-body":
                return env.http_resp(200, "OK", junk + b"x" * 4000)[:-4000], "reset"
            if fault == "non-json-big":
                return env.http_resp(200, "OK", b"<html>" + junk + b"</html>"), False
            return env.http_resp(500, "Internal Server Error", junk), False
        return env.http_resp(200, "OK", good), False

    peer = env.ScriptPeer(responder=responder)
    hist = jsonrpclib.history.History()
    url = "http://h.test/rpc" if scheme == "tcp" else "unix+http://./s.sock"
    with env.client_net(peer):
        proxy = jsonrpclib.ServerProxy(url, history=hist)
        try:
            proxy.first("x")
            first = "returned"
        except Exception as ex:
            first = type(ex).__name__
        try:
            r = proxy.second("y")
        except Exception as ex:
            return out.bad("C17/response-after-fault/second-call-raises-%s" % type(ex).__name__,
                           "%r: after a first exchange that ended with %s, the healthy second call raised %r" % (case, first, ex))
    if r != ch * 40:
        out.bad("C17/response-after-fault/result-differs", "%r: second call returned %r" % (case, r[:60] if isinstance(r, str) else r))
    if not hist.responses or hist.responses[-1] != good.decode("utf-8"):
        got = hist.responses[-1] if hist.responses else None
        out.bad("C17/response-contains-bytes-of-an-earlier-exchange",
                "%r: the text of the second response has %s characters, the body sent has %d" % (case, len(got) if got is not None else None, len(good.decode("utf-8"))))
    return out


# ---------------------------------------------------------------------------
# (e) server request reassembly


class CapServer(SimpleJSONRPCDispatcher):
    def __init__(self, cfg):
        SimpleJSONRPCDispatcher.__init__(self, config=cfg)
        self.json_config = cfg
        self.logRequests = False
        self.seen = []

    def _marshaled_dispatch(self, data, dispatch_method=None, path=None):
        self.seen.append(data)
        return SimpleJSONRPCDispatcher._marshaled_dispatch(self, data, dispatch_method, path)


SERVER_BODIES = ['{"jsonrpc":"2.0","method":"é","id":1}', '"é€\U0001F600"', '["€"]', '{"é":1}', "\U0001F600", "é",
                 # code points a lenient decoder drops or rewrites: a leading byte order mark, NUL, U+2028, a BOM in the middle
                 '\ufeff{"é":1}', '\ufeff', '\ufeff[1]', '"\x00"', '["\u2028\ufeff"]', ' \ufeff']


def cases_e(tier):
    for i, s in enumerate(SERVER_BODIES):
        b = s.encode("utf-8")
        if len(b) <= 14:
            for comp in gen.compositions(len(b)):
                yield ("short", i, tuple(comp))
        else:
            n = len(b)
            for c1 in range(1, n):
                yield ("short", i, (c1, n - c1))
                for c2 in range(c1 + 1, n):
                    if tier == "thorough" or (c1 + c2) % 3 == 0:
                        yield ("short", i, (c1, c2 - c1, n - c2))
        yield ("buffered", i, (len(b),))
    yield ("huge", 0, ())
    if tier == "thorough":
        yield ("huge", 1, ())


def check_e(case):
    mode, i, comp = case
    out = Out(cls="server-read/%s" % mode)
    srv = CapServer(Config())
    srv.register_function(lambda *a: "ok", "é")
    if mode == "huge":
        n = 10 * 1024 * 1024
        ch = ["é", "\U0001F600"][i].encode("utf-8")
        prefix = b'{"jsonrpc":"2.0","method":"\xc3\xa9","params":["'
        pad = n - 1 - len(prefix)
        body = prefix + b"a" * pad + ch + b'"],"id":1}'
        assert body[n - 1:n - 1 + len(ch)] == ch
        try:
            status, headers, reply = httpdrive.post(srv, body)
        except Exception as ex:
            return out.bad("C17/server-read-raises-%s" % type(ex).__name__, "10 MiB body raised %r" % (ex,))
        if status != 200 or not srv.seen or srv.seen[0] != body.decode("utf-8"):
            out.bad("C17/request-reassembly-depends-on-chunking",
                    "a %d-byte body whose %d-byte character straddles the 10 MiB read chunk: status %s, dispatcher saw %s characters, reply %r"
                    % (len(body), len(ch), status, len(srv.seen[0]) if srv.seen else None, reply[:200]))
        return out
    b = SERVER_BODIES[i].encode("utf-8")
    pieces = gen.cut(b, comp)
    try:
        if mode == "buffered":
            status, headers, reply = httpdrive.post(srv, b)
        else:
            status, headers, reply = httpdrive.post(srv, b, body_pieces=pieces, unbuffered=True)
    except Exception as ex:
        return out.bad("C17/server-read-raises-%s" % type(ex).__name__, "%r cut as %r raised %r" % (b, comp, ex))
    if status != 200 or not srv.seen or srv.seen[0] != SERVER_BODIES[i]:
        out.bad("C17/request-reassembly-depends-on-chunking", "%r delivered as %r: status %s, dispatcher saw %r" % (b, comp, status, srv.seen[:1]))
    else:
        judge_reply_framing(out, headers, reply, Config().content_type, "do_POST")
    return out


def judge_reply_framing(out, headers, reply, ctype, where):
    cl = [v for k, v in headers if k.lower() == "content-length"]
    ct = [v for k, v in headers if k.lower() == "content-type"]
    if len(cl) != 1 or cl[0] != str(len(reply)):
        out.bad("C17/reply-content-length/%s" % where, "Content-Length lines %r for a body of %d bytes" % (cl, len(reply)))
    if ct != [ctype]:
        out.bad("C17/reply-content-type/%s" % where, "Content-Type lines %r, configured %r" % (ct, ctype))


# ---------------------------------------------------------------------------
# (f) server -> wire and CGI

REPLY_VALUES = ["", "a", "é", "€\U0001F600", "a" * 1024 + "é", None, [1, "é"]]


def cases_f(tier):
    for vi in range(len(REPLY_VALUES)):
        for ct in CTYPES[:2]:
            for raw in (False, True):
                for kind in ("http", "http-error", "http-notify", "cgi", "cgi-error"):
                    yield (vi, ct, raw, kind)
                if not raw:
                    # the CGI handler's own output encoding (constructor argument): the declared length is that of the bytes written
                    for enc in ("utf-16", "utf-16-le", "utf-32", "utf-8-sig", "latin-1", "ascii", "cp1252"):
                        yield (vi, ct, raw, "cgi:" + enc)
                        yield (vi, ct, raw, "cgi-error:" + enc)


def check_f(case):
    vi, ct, raw, kind = case
    out = Out(cls="reply-framing/%s" % kind)
    cfg = Config(content_type=ct)
    val = REPLY_VALUES[vi]
    saved = jsonrpclib.jdumps

    def raw_dumps(obj, encoding="utf-8"):
        return json.dumps(obj, ensure_ascii=False)

    try:
        if raw:
            jsonrpclib.jdumps = raw_dumps
            J.jdumps = raw_dumps
        if kind.startswith("http"):
            srv = CapServer(cfg)
            srv.register_function(lambda: val, "give")
            body = {"http": '{"jsonrpc":"2.0","method":"give","id":1}', "http-error": '{"jsonrpc":"2.0","method":"nosuch-é","id":1}',
                    "http-notify": '{"jsonrpc":"2.0","method":"give"}'}[kind].encode("utf-8")
            status, headers, reply = httpdrive.post(srv, body)
            if status != 200:
                return out.bad("C17/reply-status", "%r: status %s" % (case, status))
            judge_reply_framing(out, headers, reply, ct, "do_POST")
            if kind != "http-notify":
                try:
                    json.loads(reply.decode("utf-8"))
                except Exception as ex:
                    out.bad("C17/reply-body-not-utf8-json", "%r: %r" % (case, ex))
        else:
            kind, _, enc = kind.partition(":")
            h = CGIJSONRPCRequestHandler(encoding=enc, config=cfg) if enc else CGIJSONRPCRequestHandler(config=cfg)
            h.register_function(lambda: val, "give")
            text = '{"jsonrpc":"2.0","method":"give","id":1}' if kind == "cgi" else '{"jsonrpc":"2.0","method":"nosuch-é","id":1}'
            bio = io.BytesIO()
            old = sys.stdout
            sys.stdout = io.TextIOWrapper(bio, encoding="utf-8", newline="\n")
            try:
                h.handle_jsonrpc(text)
                sys.stdout.flush()
            finally:
                wrapper = sys.stdout
                sys.stdout = old
            data = bio.getvalue()
            wrapper.detach()
            head, sep, reply = data.partition(b"\n\n")
            headers = []
            for line in head.decode("latin-1").split("\n"):
                k, _, v = line.partition(":")
                headers.append((k.strip(), v.strip()))
            if not sep:
                return out.bad("C17/cgi-no-header-block", "%r: output %r" % (case, data[:200]))
            judge_reply_framing(out, headers, reply, ct, "cgi")
    except Exception as ex:
        out.bad("C17/reply-raises-%s" % type(ex).__name__, "%r raised %r" % (case, ex))
    finally:
        jsonrpclib.jdumps = saved
        J.jdumps = saved
    return out


def leg(name, casegen, fn):
    def run(part, tier, shard, nshards):
        drive(part, name, casegen(tier), shard, nshards, fn)
    return run


LEGS = {
    "request-framing": leg("request-framing", cases_a, check_a),
    "request-sequence": leg("request-sequence", cases_a2, check_a2),
    "request-target": leg("request-target", cases_b, check_b),
    "parser-compositions": leg("parser-compositions", cases_c, check_c),
    "response-chunking": leg("response-chunking", cases_d, check_d),
    "response-after-fault": leg("response-after-fault", cases_d2, check_d2),
    "server-read": leg("server-read", cases_e, check_e),
    "reply-framing": leg("reply-framing", cases_f, check_f),
}

META = {
    "engine": "E3-small-scope-enumeration+E2-fake-network-history-search",
    "technique": "bounded-exhaustive enumeration of bodies, chunkings (all compositions of short bodies, <=2 cuts around read-size boundaries of long ones), "
    "URLs and schemes; bytes observed by a scripted raw peer behind the real HTTPConnection and by driving the real do_POST / CGI handler over in-memory streams",
    "rule": "request-framing: 10 payloads (sizes around 1024, 2-/3-/4-byte characters) x 3 content types x {call, kwargs, notify, batch} x {TCP, Unix}; "
    "request-sequence: sequences of 3 calls over the 10 payloads on one proxy/connection (quick: a fifth of the 1000); "
    "request-target: 4 schemes x 3 authorities x (15 paths x 12 queries + one path per printable ASCII punctuation character x 3 queries) through a "
    "recording transport, http and unix+http through the in-memory network, 23 unsupported schemes (incl. compound ones such as git+http, x+unix+http); parser-compositions: all 2^(n-1) compositions of 12 bodies of <=14 bytes; response-chunking: body sizes {1022..1026, 2047..2049, "
    "4099} x a 2-/3-/4-byte character starting at every offset that makes it touch a multiple of 1024 x identity/gzip x Content-Length/close-delimited x 4 "
    "delivery patterns; response-after-fault: a healthy response following a truncated / non-JSON / non-200 response larger than the read size on the same "
    "proxy; server-read: all compositions (<=2 cuts for longer bodies) of 6 bodies as short reads, plus a 10 MiB+1 body whose last character "
    "straddles the read chunk; reply-framing: 7 results x 2 content types x ASCII-escaping/raw UTF-8 backend x {HTTP result, error, notification, CGI result, "
    "CGI error, and CGI handlers built with 7 other output encodings}; every case non-trivial",
    "bounds": {"quick": {"composition_bytes": 14, "cuts_beyond": 2}, "thorough": {"composition_bytes": 17, "cuts_beyond": 2}},
    "assumptions": [
        "short reads reach do_POST only through an unbuffered rfile (the default buffered rfile never returns them); both are driven",
        "URLs contain no ';' parameters, '#' fragments or raw non-ASCII characters (property domain)",
        "with a caller-supplied transport the library does not reject unix+https (not asserted)",
    ],
}


def replay(case):
    c = eval(case["case"], {"__builtins__": {}}, {})
    fn = {"response-after-fault": check_d2, "request-framing": check_a, "request-sequence": check_a2, "request-target": check_b, "parser-compositions": check_c, "response-chunking": check_d,
          "server-read": check_e, "reply-framing": check_f}[case["leg"]]
    return fn(c).viols
