"""C13 - replies depend only on the request: stateless per-request version adaptation.

E2 (history search): every sequence of <=3 (thorough <=4) requests from a
12-request menu on one dispatcher; the reply to the last request must equal
the reply a fresh dispatcher gives to it alone, its form must follow the
request/server-version rule, and field-by-field snapshots of the server Config
and of the shared DEFAULT Config must be identical before and after every
event.  E1: two dispatcher threads on one dispatcher at source-line
granularity.  E3: mutation sequences on Config.copy().
"""
import itertools
import json

import jsonrpclib
import jsonrpclib.config
from jsonrpclib.config import Config
from jsonrpclib.SimpleJSONRPCServer import SimpleJSONRPCDispatcher
import jsonrpclib.SimpleJSONRPCServer as SS
import jsonrpclib.jsonrpc as J

from mc import bodies as B
from mc import explore, sched
from mc.bodies import ABSENT, obj
from mc.core import Out, drive
from mc.ref import server as ref

MENU = [
    obj(ABSENT, 1, "pair", [1, 2]),                      # 1.0 call
    obj("2.0", 2, "pair", [3, 4]),                       # 2.0 call
    obj(ABSENT, None, "f", [5]),                         # 1.0 notification
    obj("2.0", ABSENT, "f", [6]),                        # 2.0 notification
    obj(ABSENT, 3, "boom", []),                          # 1.0 failing call
    obj("2.0", 4, "boom"),                               # 2.0 failing call
    obj(ABSENT, 5, "nosuch", []),                        # 1.0 unknown method
    obj("2.0", 6, "pair", [1]),                          # 2.0 bad arity
    [obj("2.0", 7, "pair", [7, 8]), obj(ABSENT, 8, "pair", [9, 10]), obj("2.0", ABSENT, "f")],  # mixed batch
    [obj(ABSENT, 9, "pair", [1, 1]), obj(ABSENT, 10, "boom", [])],                               # batch of 1.0 entries
    obj(ABSENT, 11, 42, []),                             # invalid object (1.0 marker, bad method)
    "{not json",                                         # unparsable text
    obj("2.0", 12, "pair", "bad"),                       # invalid object (2.0 marker, bad params)
    obj(ABSENT, 13, "retfault", []),                     # 1.0 call whose method returns a Fault object
    obj("2.0", 14, "retfault"),                          # 2.0 call whose method returns a Fault object
    obj("2.0", 15, "f", [{"__jsonclass__": ["mc.ref.beans.Plain", []], "a": 2}, {"__jsonclass__": ["decimal.Decimal", ["1.5"]]}]),  # translated beans
    obj(ABSENT, 16, "f", [{"__jsonclass__": ["NoSuchLocalClass", []]}]),  # bare class name (rejected unless a class table knows it)
    obj("2.0", 17, "mutate", [[1], {"k": [2]}, {"__jsonclass__": ["mc.ref.beans.Plain", []], "items": [3]}]),  # the callee modifies the containers it receives
]
TEXTS = [m if isinstance(m, str) else B.dumps(m) for m in MENU]
# requests used only by the concurrent leg (indices beyond the menu)
EXTRA = [obj(ABSENT, "s1", "sharedfault", []), obj("2.0", "s2", "sharedfault"), obj("2.0", 0, "sharedfault")]
NMENU = len(MENU)
TEXTS += [B.dumps(m) for m in EXTRA]
S1, S2, S3 = NMENU, NMENU + 1, NMENU + 2


class InlinePool(object):
    def enqueue(self, method, *args, **kwargs):
        try:
            method(*args, **kwargs)
        except Exception:
            pass


def snap(cfg):
    return (cfg.version, cfg.content_type, cfg.user_agent, cfg.use_jsonclass, cfg.serialize_method, cfg.ignore_attribute,
            tuple(sorted((k, id(v)) for k, v in cfg.classes.items())), tuple(sorted((repr(k), id(v)) for k, v in cfg.serialize_handlers.items())),
            id(cfg.classes), id(cfg.serialize_handlers), type(cfg.classes).__name__)


def mkworld(key):
    version, use_jsonclass, pool = key
    if version == "DEFAULT":
        w = ref.World(version=jsonrpclib.config.DEFAULT.version, use_jsonclass=True,
                      dispatcher_factory=lambda cfg: SimpleJSONRPCDispatcher(), pool=InlinePool() if pool else None)
        w.config = jsonrpclib.config.DEFAULT
    else:
        w = ref.World(version=version, use_jsonclass=use_jsonclass, pool=InlinePool() if pool else None)
    return w


WORLD_KEYS = [(2.0, True, False), (1.0, True, False), (2.0, False, False), (2.0, True, True), (1.0, False, True), ("DEFAULT", True, False)]
_FRESH = {}


def fresh_reply(key, i):
    k = (key, i)
    if k not in _FRESH:
        w = mkworld(key)
        _FRESH[k] = w.run(TEXTS[i])
    return _FRESH[k]


def parsed(t):
    try:
        return json.loads(t) if t else None
    except ValueError:
        return ("unparsable", t)


def check_history(case):
    key, hist = case
    out = Out(cls="len%d" % len(hist))
    default_before = snap(jsonrpclib.config.DEFAULT)
    w = mkworld(key)
    cfg = w.d.json_config
    before = snap(cfg)
    reply = None
    try:
        for i in hist:
            reply = w.run(TEXTS[i])
            if snap(cfg) != before or w.d.json_config is not cfg:
                out.bad("C13/server-config-changed-by-request", "history %r on %r: request %s changed the server Config: %r -> %r" % (hist, key, TEXTS[i], before, snap(cfg)))
                before = snap(cfg)
            if snap(jsonrpclib.config.DEFAULT) != default_before:
                out.bad("C13/default-config-changed-by-request", "history %r on %r: request %s changed jsonrpclib.config.DEFAULT" % (hist, key, TEXTS[i]))
                _restore_default(default_before)
    except Exception as ex:
        _restore_default(default_before)
        return out.bad("C13/dispatcher-raises", "history %r on %r raised %r" % (hist, key, ex))
    last = hist[-1]
    want = fresh_reply(key, last)
    if parsed(reply) != parsed(want):
        out.bad("C13/reply-depends-on-history",
                "history %r on %r: request %s answered %r, a fresh dispatcher answers %r" % (hist, key, TEXTS[last], reply, want))
    # form rule on the last request
    if not isinstance(MENU[last], str):
        viols, label, ok = ref.evaluate_body(w, TEXTS[last])
        for prop, sig, detail in viols:
            if prop == "C13":
                out.bad(sig, "after history %r on %r: %s" % (hist[:-1], key, detail))
    if snap(jsonrpclib.config.DEFAULT) != default_before:
        _restore_default(default_before)
    return out


def _restore_default(s):
    d = jsonrpclib.config.DEFAULT
    d.version, d.content_type, d.user_agent, d.use_jsonclass, d.serialize_method, d.ignore_attribute = s[:6]


def history_cases(tier):
    n = NMENU
    depth = 4 if tier == "thorough" else 3
    for k in range(1, depth + 1):
        for hist in itertools.product(range(n), repeat=k):
            keys = WORLD_KEYS if k <= 3 else (WORLD_KEYS[0], WORLD_KEYS[1], WORLD_KEYS[5])
            if tier == "quick" and k == 3:
                keys = (WORLD_KEYS[0], WORLD_KEYS[1], WORLD_KEYS[3], WORLD_KEYS[5])
            for key in keys:
                yield (key, hist)


# long histories: the N-th request is answered like the first (counters, caches that fill up, adaptive state)

BIG_FILLERS = [
    B.dumps([obj(ABSENT, i, "pair", [i, 1]) for i in range(1200)]),          # a large batch of 1.0 calls
    B.dumps([obj("2.0", ABSENT, "f", [i]) for i in range(1200)] + [obj("2.0", "x", "boom")]),  # a large batch of 2.0 notifications
    B.dumps(obj(ABSENT, 1, "f", [[[i] for i in range(3000)]])),             # a large 1.0 request
]


def long_cases(tier):
    n = NMENU
    for last in range(n):
        for filler in range(n):
            yield ("repeat", 130, filler, last)
        for filler in (0, 1, 8, 11):
            yield ("repeat", 1100 if tier == "quick" else 70000 if filler == 0 else 5000, filler, last)
        yield ("cycle", 40, 0, last)
        for b in range(len(BIG_FILLERS)):
            yield ("big", 3, b, last)


def check_long(case):
    kind, count, filler, last = case
    out = Out(cls="long-history/" + kind)
    default_before = snap(jsonrpclib.config.DEFAULT)
    results = []
    for key in (WORLD_KEYS[0], WORLD_KEYS[1], WORLD_KEYS[3]):
        w = mkworld(key)
        cfg = w.d.json_config
        before = snap(cfg)
        try:
            if kind == "repeat":
                for _ in range(count):
                    w.run(TEXTS[filler])
            elif kind == "cycle":
                for _ in range(count):
                    for t in TEXTS:
                        w.run(t)
            else:
                for _ in range(count):
                    w.run(BIG_FILLERS[filler])
            reply = w.run(TEXTS[last])
        except Exception as ex:
            _restore_default(default_before)
            return out.bad("C13/dispatcher-raises", "long history %r on %r raised %r" % (case, key, ex))
        if snap(cfg) != before or w.d.json_config is not cfg:
            out.bad("C13/server-config-changed-by-request", "long history %r on %r changed the server Config" % (case, key))
        if snap(jsonrpclib.config.DEFAULT) != default_before:
            out.bad("C13/default-config-changed-by-request", "long history %r on %r changed jsonrpclib.config.DEFAULT" % (case, key))
            _restore_default(default_before)
        want = fresh_reply(key, last)
        if parsed(reply) != parsed(want):
            out.bad("C13/reply-depends-on-history", "long history %r on %r: request %s answered %r, a fresh dispatcher answers %r" % (case, key, TEXTS[last], reply, want))
    return out


# results whose conversion fails (cyclic, too deep, refused by the serialiser, raising serialisation method): the error reply follows the form rule

def unconvertible_cases(tier):
    for version in (2.0, 1.0):
        for jc in (True, False):
            for m in ("cyclic", "deepret", "badkeys", "badser", "cfgfault", "retfault", "sharedfault"):
                if m == "badser" and not jc:
                    continue
                for j in ("2.0", ABSENT):
                    yield ((version, jc, "default", None), B.dumps(obj(j, 7, m, [])))
                    yield ((version, jc, "default", None), B.dumps([obj(j, 7, m, []), obj("2.0", 8, "pair", [1, 2]), obj(ABSENT, 9, "pair", [3, 4])]))


def check_unconvertible(case):
    key, body = case
    w = ref.World(version=key[0], use_jsonclass=key[1])
    out = Out(cls="unconvertible")
    viols, label, dom = ref.evaluate_body(w, body)
    for prop, sig, detail in viols:
        if prop == "C13":
            out.bad(sig, detail)
    return out


# the value of the "jsonrpc" member is irrelevant to the form: its presence selects the server's own form

MARKER_VALUES = ["2.0", "1.0", "1.1", "2", "3.0", "two", "", 2, 2.0, 1, 1.0, 0, True, False, None, [2], {"v": 2}]


def marker_cases(tier):
    for version in (2.0, 1.0):
        for jc in (True, False):
            for jv in MARKER_VALUES:
                odd = [obj(jv, 7, "pair", [1, 2]), obj(jv, 7, "boom", []), obj(jv, 7, "nosuch", []), obj(jv, ABSENT, "f", [1]), obj(jv, 7, "pair", [1]), obj(jv, 7, "retfault", [])]
                for o in odd:
                    yield ((version, jc), B.dumps(o))
                    yield ((version, jc), B.dumps([obj("2.0", 8, "pair", [1, 2]), o, obj(ABSENT, 9, "pair", [3, 4])]))
                    yield ((version, jc), B.dumps([o, obj(ABSENT, 9, "pair", [3, 4])]))


def check_marker(case):
    key, body = case
    w = ref.World(version=key[0], use_jsonclass=key[1])
    out = Out(cls="marker")
    viols, label, dom = ref.evaluate_body(w, body)
    for prop, sig, detail in viols:
        if prop in ("C13", "HARNESS"):
            out.bad(sig if prop == "C13" else "C13/" + sig, detail)
    return out


def leg_marker(part, tier, shard, nshards):
    drive(part, "marker-values", marker_cases(tier), shard, nshards, check_marker)


def leg_unconvertible(part, tier, shard, nshards):
    drive(part, "unconvertible-results", unconvertible_cases(tier), shard, nshards, check_unconvertible)


def leg_long(part, tier, shard, nshards):
    drive(part, "long-history", long_cases(tier), shard, nshards, check_long)
    part.count("transitions", part.evals.get("long-history", 0) * 130)


def leg_history(part, tier, shard, nshards):
    drive(part, "history", history_cases(tier), shard, nshards, check_history)
    part.add_to_set("states", ("history-leg", shard))
    part.count("transitions", part.evals.get("history", 0))


# -- Config.copy ------------------------------------------------------------------------


class K1(object):
    pass


class K2(object):
    pass


def h1(*a):
    return 1


MUTATIONS = [
    ("version", lambda c: setattr(c, "version", 1.0 if c.version != 1.0 else 2.0)),
    ("content_type", lambda c: setattr(c, "content_type", "text/x")),
    ("user_agent", lambda c: setattr(c, "user_agent", "ua")),
    ("use_jsonclass", lambda c: setattr(c, "use_jsonclass", not c.use_jsonclass)),
    ("serialize_method", lambda c: setattr(c, "serialize_method", "toJson")),
    ("ignore_attribute", lambda c: setattr(c, "ignore_attribute", "skip")),
    ("classes.add", lambda c: c.classes.add(K2)),
    ("classes[k]=", lambda c: c.classes.__setitem__("K1", K2)),
    ("del classes[k]", lambda c: c.classes.__delitem__("K1")),
    ("classes.clear", lambda c: c.classes.clear()),
    ("classes.update", lambda c: c.classes.update({"Z": K2})),
    ("handlers[k]=", lambda c: c.serialize_handlers.__setitem__(K2, h1)),
    ("handlers[k]=existing", lambda c: c.serialize_handlers.__setitem__(K1, None)),
    ("del handlers[k]", lambda c: c.serialize_handlers.__delitem__(K1)),
    ("handlers.clear", lambda c: c.serialize_handlers.clear()),
    ("handlers.pop", lambda c: c.serialize_handlers.pop(K1, None)),
]


def content(cfg):
    return (cfg.version, cfg.content_type, cfg.user_agent, cfg.use_jsonclass, cfg.serialize_method, cfg.ignore_attribute,
            tuple(sorted((k, id(v)) for k, v in cfg.classes.items())), tuple(sorted((repr(k), id(v)) for k, v in cfg.serialize_handlers.items())))


def copy_cases(tier):
    n = len(MUTATIONS)
    for start in ("default", "populated", "v1", "falsy", "custom-names"):
        for side in ("mutate-copy", "mutate-original"):
            for k in (1, 2):
                for seq in itertools.product(range(n), repeat=k):
                    yield (start, side, seq)


def check_copy(case):
    start, side, seq = case
    out = Out(cls=side)
    if start == "default":
        orig = Config()
    elif start == "v1":
        orig = Config(version=1.0, use_jsonclass=False, user_agent="x")
    elif start == "falsy":
        # every option set, after construction, to a value that is falsy or zero-like
        orig = Config()
        orig.version, orig.content_type, orig.user_agent, orig.use_jsonclass, orig.serialize_method, orig.ignore_attribute = 0, "", "", 0, "", ""
    elif start == "custom-names":
        orig = Config(version=2, content_type="a/b", user_agent="ua", use_jsonclass=True, serialize_method="toJson", ignore_attribute="skipThese")
    else:
        orig = Config(serialize_handlers={K1: h1})
        orig.classes.add(K1)
    o_before = content(orig)
    try:
        cp = orig.copy()
    except Exception as ex:
        return out.bad("C13/config-copy-raises", "Config.copy() raised %r" % (ex,))
    if content(cp) != o_before:
        out.bad("C13/config-copy-differs-from-original", "copy %r, original %r" % (content(cp), o_before))
    target, other = (cp, orig) if side == "mutate-copy" else (orig, cp)
    other_before = content(other)
    impossible = 0
    for i in seq:
        try:
            MUTATIONS[i][1](target)
        except (KeyError, AttributeError, TypeError):
            impossible += 1
        if content(other) != other_before:
            out.bad("C13/config-copy-not-isolated/%s" % MUTATIONS[i][0].replace(" ", "-"),
                    "%s (start %s): after %s on one side the other side changed %r -> %r"
                    % (side, start, [MUTATIONS[j][0] for j in seq], other_before, content(other)))
            break
    out.cls = "%s/%s" % (side, "all-applied" if not impossible else "some-impossible")
    return out


def leg_copy(part, tier, shard, nshards):
    drive(part, "config-copy", copy_cases(tier), shard, nshards, check_copy)


# -- concurrent part (E1) ----------------------------------------------------------------------

PAIRS = [(0, 1), (0, 4), (2, 8), (1, 0), (10, 1), (12, 0), (8, 9), (5, 2), (13, 1), (15, 0)]
TRIPLES = [(0, 1, 4), (2, 8, 10)]
# a method that returns one shared Fault object, asked concurrently with different ids and forms
PAIRS += [(S1, S2), (S2, S3), (13, S2)]


class ConcHarness(object):
    audited = (SS.__file__, J.__file__, jsonrpclib.config.__file__)

    def __init__(self, key, reqs):
        self.key, self.reqs = key, reqs
        self.replies = {}
        self.v = []
        self.finished = False

    def worker(self, n, i):
        try:
            self.replies[n] = self.w.d._marshaled_dispatch(TEXTS[i], None)
        except Exception as ex:
            self.replies[n] = ("raised", repr(ex))
        if snap(self.cfg) != self.before:
            self.v.append(("C13/server-config-changed-by-request", "Config differs when thread %d returns: %r -> %r" % (n, self.before, snap(self.cfg))))

    def main(self):
        self.w = mkworld(self.key)
        self.cfg = self.w.d.json_config
        self.before = snap(self.cfg)
        self.default_before = snap(jsonrpclib.config.DEFAULT)
        ts = [sched.MThread(target=self.worker, args=(n, i), name="req%d" % n) for n, i in enumerate(self.reqs)]
        for t in ts:
            t.start()
        for t in ts:
            t.join()
        self.finished = True

    def step(self, s):
        # the shared configuration must never be observed modified, not even transiently
        if not self.v and getattr(self, "cfg", None) is not None and self.cfg.version != self.before[0]:
            self.v.append(("C13/server-config-changed-transiently", "server Config.version is %r during concurrent dispatch (configured %r)" % (self.cfg.version, self.before[0])))

    def final(self, s):
        v = self.v
        if not self.finished:
            v.append(("C13/concurrent-dispatch-does-not-terminate", "status %s" % s.status))
            return (s.status, v)
        for n, i in enumerate(self.reqs):
            want = fresh_reply(self.key, i)
            got = self.replies.get(n)
            if isinstance(got, tuple) or parsed(got) != parsed(want):
                v.append(("C13/reply-depends-on-concurrent-request",
                          "request %s served concurrently with %r answered %r, alone it is answered %r" % (TEXTS[i], [TEXTS[j] for j in self.reqs if j != i], got, want)))
        if snap(self.cfg) != self.before:
            v.append(("C13/server-config-changed-by-request", "server Config changed: %r -> %r" % (self.before, snap(self.cfg))))
        if snap(jsonrpclib.config.DEFAULT) != self.default_before:
            v.append(("C13/default-config-changed-by-request", "DEFAULT Config changed"))
            _restore_default(self.default_before)
        return (tuple(sorted(self.replies.items())), v)


def make(key, reqs):
    sched.install()
    return lambda: ConcHarness(tuple(key), tuple(reqs))


class BeanHarness(object):
    """Two (three) requests served concurrently whose results are instances of classes that no dump has seen before:
    the classes are created afresh in every execution, so whatever the translator remembers per class is built during the race."""
    import jsonrpclib.jsonclass as _jc

    audited = (_jc.__file__,)

    def __init__(self, version, shape, n):
        self.version, self.shape, self.n = version, shape, n
        self.replies = {}
        self.finished = False
        # whatever the translator keeps per process rather than per class (e.g. about `object`) is warmed up outside the explored execution,
        # so that the first execution and its replays take the same steps; what it keeps per class is cold: the classes are new each time
        self._jc.dump(self.build()())

    def build(self):
        import sys
        import types

        sys.modules.setdefault("verif_fresh", types.ModuleType("verif_fresh"))  # the module the translator finds the fresh classes in
        ns = {"__module__": "verif_fresh"}
        if self.shape == "slots":
            Base = type("Base", (object,), dict(ns, __slots__=("a", "_p")))
            Sub = type("Sub", (Base,), dict(ns, __slots__=("b",)))
        elif self.shape == "mixed":
            Base = type("Base", (object,), dict(ns, __slots__=("a", "_p")))
            Sub = type("Sub", (Base,), dict(ns))
        else:
            Base = type("Base", (object,), dict(ns))
            Sub = type("Sub", (Base,), dict(ns))

        def get():
            o = Sub()
            o.a, o._p, o.b = 1, [2], {"k": 3}
            return [o, {"k": o}]
        return get

    def worker(self, n):
        try:
            self.replies[n] = self.d._marshaled_dispatch(json.dumps({"jsonrpc": "2.0", "id": n, "method": "get"} if n != 1 else {"id": n, "method": "get", "params": []}), None)
        except Exception as ex:
            self.replies[n] = ("raised", repr(ex))

    def main(self):
        self.d = SimpleJSONRPCDispatcher(config=Config(version=self.version))
        self.d.register_function(self.build(), "get")
        ts = [sched.MThread(target=self.worker, args=(n,), name="req%d" % n) for n in range(self.n)]
        for t in ts:
            t.start()
        for t in ts:
            t.join()
        self.finished = True

    def final(self, s):
        v = []
        if not self.finished:
            return (s.status, [("C13/concurrent-dispatch-does-not-terminate", "status %s" % s.status)])
        bean = {"__jsonclass__": ["verif_fresh.Sub", []], "a": 1, "_p": [2], "b": {"k": 3}}
        for n in range(self.n):
            got = parsed(self.replies.get(n))
            res = got.get("result") if isinstance(got, dict) else None
            form_ok = isinstance(got, dict) and got.get("id") == n and (("jsonrpc" in got) == (n != 1 and self.version >= 2))
            if res != [bean, {"k": bean}] or not form_ok:
                v.append(("C13/reply-depends-on-concurrent-request", "request %d (result: two instances of a fresh %s class) served concurrently with %d other(s) answered %r" % (n, self.shape, self.n - 1, self.replies.get(n))))
        # canonical outcome: the order of the members of a dumped object follows set iteration order, which is not part of the property
        return (tuple(sorted((k, json.dumps(parsed(x), sort_keys=True) if isinstance(x, str) else str(x)) for k, x in self.replies.items())), v)


def make_beans(version, shape, n):
    sched.install()
    return lambda: BeanHarness(version, shape, n)


def harnesses(tier):
    out = []
    keys = [WORLD_KEYS[0], WORLD_KEYS[1], WORLD_KEYS[5]]
    for key in keys:
        for pair in PAIRS:
            out.append((("checks.c13", "make", (key, pair)), "conc/%s/%s" % (key[0], "-".join(map(str, pair)))))
        if key[0] != "DEFAULT":
            for shape in ("slots", "mixed", "plain"):
                out.append((("checks.c13", "make_beans", (key[0], shape, 2)), "conc-beans/%s/%s/2" % (key[0], shape)))
                if tier == "thorough":
                    out.append((("checks.c13", "make_beans", (key[0], shape, 3)), "conc-beans/%s/%s/3" % (key[0], shape)))
        if tier == "thorough":
            for tr in TRIPLES:
                out.append((("checks.c13", "make", (key, tr)), "conc/%s/%s" % (key[0], "-".join(map(str, tr)))))
    return out


def leg_concurrent(part, tier, shard, nshards):
    levels = [{"K": 0, "T": 0}, {"K": 1, "T": 0}, {"K": 2, "T": 0}, {"K": 3, "T": 0}]
    total = explore.explore_adaptive(harnesses(tier), levels, 3000 if tier == "quick" else 150000,
                                     global_budget=None if tier == "quick" else 700000)
    part.merge(total)


LEGS = {"unconvertible-results": leg_unconvertible, "marker-values": leg_marker, "long-history": leg_long, "history": leg_history, "config-copy": leg_copy, "concurrent": leg_concurrent}

META = {
    "engine": "E2-fake-network-history-search+E1-schedule-explorer+E3-small-scope-enumeration",
    "serial_legs": ("concurrent",),
    "technique": "explicit enumeration of request histories on the real dispatcher with a differential oracle (fresh dispatcher) and Config snapshots; "
    "stateless model checking of two concurrent dispatcher threads at source-line granularity; enumeration of mutation sequences on Config.copy()",
    "rule": "history: every sequence of <=3 (thorough <=4) requests over a 17-request menu (1.0/2.0 calls, notifications, failing, unknown, bad arity, mixed "
    "and 1.0 batches, invalid objects of both versions, unparsable text, methods returning a Fault object, requests carrying translated beans) x 6 server configurations (2.0, 1.0, translation off, inline notification pool, "
    "shared DEFAULT config); unconvertible-results: methods returning a cyclic, a 100000-deep, a tuple-keyed result, a bean whose serialisation method raises, or a Fault built with the default / the server's own Config / shared between calls, alone and in a "
    "batch, 1.0 and 2.0 form, server 1.0/2.0, translation on/off; marker-values: 17 values of the jsonrpc member (strings spelling other versions, numbers, booleans, null, containers) x 6 request kinds, alone and at two batch positions, server 1.0/2.0, translation on/off (presence of the member, not its value, selects the form); long-history: each menu request after 130 repetitions of each menu request, after 1100 (thorough up to 70000) repetitions of 4 of them, "
    "after 40 cycles through the menu and after large batches / large requests, on 3 configurations (the N-th reply equals a fresh dispatcher's); config-copy: every sequence of <=2 mutations from a 16-mutation menu on the copy and on the original from 5 start states (default, populated tables, 1.0 with options off, every option falsy, every option customised); "
    "concurrent: 13 request pairs (thorough + 2 triples) x 3 configurations, and 2 (thorough also 3) concurrent requests whose results are instances of slotted / mixed / plain classes created afresh in every execution (line granularity of jsonclass.py),  every schedule up to the completed preemption level at line granularity of "
    "SimpleJSONRPCServer.py, jsonrpc.py, config.py; non-trivial = history of length >= 2 / mutation applied / execution with a choice point",
    "bounds": {"quick": {"history_depth": 3, "mutation_depth": 2, "conc_levels": "K ladder 0..3 while predicted <= 3000"},
               "thorough": {"history_depth": 4, "mutation_depth": 2, "conc_levels": "K ladder 0..3 while predicted <= 150000"}},
    "assumptions": [
        "the form rule is asserted for structurally valid requests only (how un-requests are answered is C02's subject)",
        "operations the copied configuration does not support raise and trivially leave the other side untouched",
    ],
}


def replay(case):
    if "schedule" in case:
        sched.install()
        return explore.replay_schedule(case)
    c = eval(case["case"], {"__builtins__": {}}, {})
    if case["leg"] == "history":
        return check_history(c).viols
    if case["leg"] == "unconvertible-results":
        return check_unconvertible(c).viols
    if case["leg"] == "long-history":
        return check_long(c).viols
    if case["leg"] == "marker-values":
        return check_marker(c).viols
    return check_copy(c).viols
