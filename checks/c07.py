"""C07 - objects survive dump/load wherever they occur, for every supported class shape.

E3 over programs: class definitions are generated as source text (storage
kind x inheritance depth x per-level field lists x serialisation variant),
compiled and executed; instances with enumerated field values are sent through
jsonclass.dump/load, jsonrpc.dumps/loads and a loopback ServerProxy <-> real
dispatcher exchange (as parameter and as result, 1.0 and 2.0), in a set of
embedding contexts, for module-qualified and locally registered classes.
"""
import decimal
import itertools

import jsonrpclib
from jsonrpclib import jsonclass
from jsonrpclib.config import Config
from jsonrpclib.SimpleJSONRPCServer import SimpleJSONRPCDispatcher
import jsonrpclib.jsonrpc as J

from mc import classgen
from mc.core import Out, drive
from mc.loop import LoopbackTransport
from mc.ref import beans

from checks.c15 import match

from mc import gen

VALUES = [0, False, None, "", "é", 1.5, [1, (2,)], {"k": [0]}, {1, 2}, (1, "a")] + gen.SUBTYPE_VALUES[:1] + gen.SUBTYPE_VALUES[2:7] + gen.SUBTYPE_VALUES[8:9]
DEFAULTS = ["d0", 11, 2.5, "d3", True, "d5"]
CONTEXTS = ["top", "list", "list2", "dict", "deep", "bean-list", "bean-dict", "deep40"]
PATHS = ["dump-load", "dumps-loads", "rpc-param-2", "rpc-param-1", "rpc-result-2", "rpc-result-1"]


def embed(ctx, x):
    if ctx == "top":
        return x
    if ctx == "list":
        return [x]
    if ctx == "list2":
        return [0, x]
    if ctx == "dict":
        return {"k": x}
    if ctx == "deep":
        return [{"k": [x]}]
    if ctx == "deep40":
        for i in range(40):
            x = {"k": x} if i % 2 else [x]
        return x
    outer = beans.Plain()
    if ctx == "bean-list":
        outer.items = [x]
    else:
        outer.d = {"k": x}
    return outer


def extract(ctx, y):
    if ctx == "top":
        return y
    if ctx == "list":
        return y[0]
    if ctx == "list2":
        return y[1]
    if ctx == "dict":
        return y["k"]
    if ctx == "deep":
        return y[0]["k"][0]
    if ctx == "deep40":
        for i in reversed(range(40)):
            y = y["k"] if i % 2 else y[0]
        return y
    if ctx == "bean-list":
        return y.items[0]
    return y.d["k"]


def transport(value, path, cfg):
    """Sends `value` through one path; returns the value that arrives (raises on failure)."""
    if path == "dump-load":
        return jsonclass.load(jsonclass.dump(value, config=cfg), cfg.classes)
    if path == "dumps-loads":
        text = J.dumps([value], "m", rpcid=1, config=cfg)
        return J.loads(text, cfg)["params"][0]
    version = 2.0 if path.endswith("2") else 1.0
    d = SimpleJSONRPCDispatcher(config=cfg)
    seen = []

    def echo(x):
        seen.append(x)
        return x

    def give():
        return value

    d.register_function(echo)
    d.register_function(give)
    p = jsonrpclib.ServerProxy("http://h/", transport=LoopbackTransport(d), version=version, config=cfg)
    if path.startswith("rpc-param"):
        p.echo(value)
        if len(seen) != 1:
            raise AssertionError("remote callable invoked %d times" % len(seen))
        return seen[0]
    return p.give()


def equal_objects(o, o2, fields, ser):
    if type(o2) is not type(o):
        return "reloaded object is %r, expected an instance of %s" % (type(o2), type(o).__name__)
    if ser != "none":
        for nm in ("args", "kwargs", "extra"):
            if not match(getattr(o, nm), getattr(o2, nm, "<missing>")):
                return "%s is %r, expected %r" % (nm, getattr(o2, nm, "<missing>"), getattr(o, nm))
        return ""
    for written, real in fields:
        want = getattr(o, real)
        try:
            got = getattr(o2, real)
        except AttributeError:
            return "field %s is missing" % real
        if not match(want, got):
            return "field %s is %r, expected %r" % (real, got, want)
    return ""


def make_instance(spec, assignment, local):
    cls, fields, modname = classgen.build(spec, main_module=local)
    ser = spec[2]
    if ser == "dict":
        o = cls(p=1, q=[2])
    elif ser in ("list", "custom-list"):
        o = cls(1, "two", [3])
    else:
        o = cls()
    if ser != "none":
        o.extra = assignment[0] if assignment else None
    else:
        for (written, real), v in zip(fields, assignment):
            setattr(o, real, v)
    return o, cls, fields


def run_case(case):
    spec, assignment, ctx, path, local = case
    out = Out(cls="%s/%s/%s" % (spec[0], path, "local" if local else "module"))
    o, cls, fields = make_instance(spec, assignment, local)
    cfg = Config(version=2.0)
    if spec[2] == "custom-list":
        cfg.serialize_method = "toJson"
    if local:
        cfg.classes.add(cls)
    value = embed(ctx, o)
    sig = "C07/%s/%s" % ("local-class" if local else "module-class", path.rsplit("-", 1)[0] if path.startswith("rpc") else path)
    try:
        back = transport(value, path, cfg)
        o2 = extract(ctx, back)
    except Exception as ex:
        slot = "slotted" if spec[0].partition("@")[0] not in ("dict",) and "S" in spec[0].replace("slots", "S") else "dict"
        mangled = "mangled" if any("c" in l for l in spec[1]) else "plain"
        return out.bad("%s/raises-%s/%s-%s-%s" % (sig, type(ex).__name__, slot, mangled, "nested" if ctx != "top" else "top"),
                       "spec %r values %r in context %s via %s raised %r" % (spec, assignment, ctx, path, ex))
    why = equal_objects(o, o2, fields, spec[2])
    if why:
        out.bad("%s/object-differs" % sig, "spec %r values %r in context %s via %s: %s" % (spec, assignment, ctx, path, why))
    return out


def default_assignment(nfields, shift=0):
    return tuple(DEFAULTS[(i + shift) % len(DEFAULTS)] for i in range(nfields))


def nfields(spec):
    return sum(len(l) for l in spec[1])


def shape_cases(tier):
    depth = 3 if tier == "thorough" else 2
    for spec in classgen.specs(depth):
        a = default_assignment(nfields(spec))
        yield (spec, a, "top", "dump-load", False)
        yield (spec, a, "list", "dumps-loads", False)
    # every mix of slotted and non-slotted classes over three (thorough: four) levels, fields at every level
    import itertools as _it
    for n in ((3,) if tier == "quick" else (3, 4)):
        for pattern in _it.product("SP", repeat=n):
            for kinds in ((("a",),) * n, (("a", "c"),) + (("b",),) * (n - 1), (("c",),) + ((),) * (n - 2) + (("a",),)):
                spec = ("mix:" + "".join(pattern), kinds, "none", "none")
                a = default_assignment(nfields(spec))
                yield (spec, a, "top", "dump-load", False)
                yield (spec, a, "dict", "rpc-result-1", False)
    for spec in classgen.specs(1, storages=("dict@_", "slots@_", "slots-on-dict@_", "dict-on-slots@_", "slots@__")):
        a = default_assignment(nfields(spec))
        yield (spec, a, "top", "dump-load", False)
        yield (spec, a, "list", "dumps-loads", True)


REPR_SPECS = [
    ("dict", (("a",),), "none", "none"),
    ("dict", (("a", "c"),), "none", "none"),
    ("dict", (("b",), ("a", "c")), "none", "none"),
    ("slots", (("a",),), "none", "none"),
    ("slots", (("a", "c"),), "none", "none"),
    ("slots", (("c",), ("a", "b")), "none", "none"),
    ("slots-on-dict", (("a",), ("b", "c")), "none", "none"),
    ("dict-on-slots", (("a", "c"), ("b",)), "none", "none"),
    ("dict", (("a",), (), ("b", "c")), "none", "none"),
    ("slots", (("a",), ("c",), ("c",)), "none", "none"),
    # class names with leading underscores (name mangling drops them: _L0.__c0 is stored as _L0__c0)
    ("slots@_", (("a", "c"),), "none", "none"),
    ("dict@_", (("c",), ("a", "c")), "none", "none"),
    ("slots@__", (("c",), ("b", "c")), "none", "none"),
]


def value_cases(tier):
    for spec in REPR_SPECS:
        n = nfields(spec)
        assigns = []
        for i in range(n):
            for v in VALUES:
                a = list(default_assignment(n))
                a[i] = v
                assigns.append(tuple(a))
        if n == 2:
            for v, w in itertools.product(VALUES, repeat=2):
                assigns.append((v, w))
        for a in assigns:
            for ctx in CONTEXTS:
                for path in PATHS:
                    if tier == "quick" and ctx in ("list2", "deep", "deep40") and path not in ("dump-load", "rpc-param-2"):
                        continue
                    for local in (False, True):
                        if tier == "quick" and local and path in ("rpc-param-1", "rpc-result-1") and ctx not in ("top", "list"):
                            continue
                        yield (spec, a, ctx, path, local)


def ser_cases(tier):
    for ser in ("list", "dict", "custom-list"):
        for levels in ((("a",),), (("a",), ("b",))):
            spec = ("dict", levels, ser, "none")
            for extra in VALUES[:6] + [[1, 2], {"k": "v"}]:
                for ctx in CONTEXTS:
                    for path in PATHS:
                        for local in (False, True):
                            yield (spec, (extra,), ctx, path, local)


# -- enums and decimals -------------------------------------------------------------------------

DECIMALS = ["0", "-0", "1.50", "1E+3", "-12.345", "0.000001", "123456789012345678901234567890"]
# instances of slotted standard-library classes that travel as beans (module-qualified, slots, no-argument constructor)
STDLIB = ["fractions.Fraction(1, 3)", "fractions.Fraction(-7, 2)", "fractions.Fraction(0)"]


def singleton_cases(tier):
    e = classgen.enums()
    members = ["Color.RED", "Color.GREEN", "Color.BLUE", "Color.NONE", "Single.ONLY"]
    for m in members:
        for ctx in CONTEXTS:
            for path in PATHS:
                yield ("enum", m, ctx, path)
    for d in DECIMALS:
        for ctx in CONTEXTS:
            for path in PATHS:
                yield ("decimal", d, ctx, path)
    for x in STDLIB:
        for ctx in CONTEXTS:
            for path in PATHS:
                yield ("stdlib", x, ctx, path)


def check_singleton(case):
    kind, name, ctx, path = case
    out = Out(cls="%s/%s" % (kind, path))
    if kind == "enum":
        mod = classgen.enums()
        cname, mname = name.split(".")
        o = getattr(getattr(mod, cname), mname)
    elif kind == "stdlib":
        import fractions
        o = eval(name, {"fractions": fractions})
    else:
        o = decimal.Decimal(name)
    cfg = Config(version=2.0)
    try:
        o2 = extract(ctx, transport(embed(ctx, o), path, cfg))
    except Exception as ex:
        return out.bad("C07/%s/raises-%s" % (kind, type(ex).__name__), "%s %s in %s via %s raised %r" % (kind, name, ctx, path, ex))
    if kind == "enum":
        if o2 is not o:
            out.bad("C07/enum/member-differs", "%s in %s via %s came back as %r" % (name, ctx, path, o2))
    elif kind == "stdlib":
        if type(o2) is not type(o) or o2 != o:
            out.bad("C07/stdlib-object/value-differs", "%s in %s via %s came back as %r" % (name, ctx, path, o2))
    elif type(o2) is not decimal.Decimal or str(o2) != str(o):
        out.bad("C07/decimal/value-differs", "Decimal(%s) in %s via %s came back as %r" % (name, ctx, path, o2))
    return out


# -- histories: translation must not carry state from one call to the next ---------------------------------

HSPECS = [("dict", (("a",),), "none", "none"), ("dict", (("a", "b"),), "none", "none"), ("slots", (("a",),), "none", "none"),
          ("slots", (("a", "c"),), "none", "none")]


def history_cases(tier):
    # events: (spec index, local?) ; every sequence of 3 (thorough 4) dump/load round trips on shared and per-class configs
    evs = [(i, local) for i in range(len(HSPECS)) for local in (False, True, "shared-table")]
    L = 5 if tier == "thorough" else 3
    for seq in itertools.product(range(len(evs)), repeat=L):
        if tier == "quick" and len(set(seq)) == 1:
            continue
        yield (seq,)


def check_history(case):
    (seq,) = case
    evs = [(i, local) for i in range(len(HSPECS)) for local in (False, True, "shared-table")]
    out = Out(cls="history")
    shared = Config(version=2.0)
    for step, e in enumerate(seq):
        si, local = evs[e]
        spec = HSPECS[si]
        o, cls, fields = make_instance(spec, default_assignment(nfields(spec), shift=step), bool(local))
        # all local classes of this leg are called 'L0': each event registers its own class under that name, either in a table
        # of its own or ("shared-table") in the one table all events share - there the newest registration of the name is the one in force
        cfg = shared if local in (False, "shared-table") else Config(version=2.0)
        if local:
            if local == "shared-table" and step % 2:
                cfg.classes.add(cls, "Alias%d" % step)  # the same class is also known under another name
            cfg.classes.add(cls)
        try:
            back = transport([o, {"k": o}], "dump-load" if step % 2 else "dumps-loads", cfg)
            o2, o3 = back[0], back[1]["k"]
        except Exception as ex:
            return out.bad("C07/history/raises-%s" % type(ex).__name__, "history %r step %d raised %r" % (case, step, ex))
        for got in (o2, o3):
            why = equal_objects(o, got, fields, "none")
            if why:
                return out.bad("C07/history/object-depends-on-earlier-translation", "history %r step %d: %s" % (case, step, why))
    return out


def leg(name, gen_cases, fn=run_case):
    def run(part, tier, shard, nshards):
        drive(part, name, gen_cases(tier), shard, nshards, fn)
    return run


LEGS = {
    "shapes": leg("shapes", shape_cases),
    "values": leg("values", value_cases),
    "serialize": leg("serialize", ser_cases),
    "singletons": leg("singletons", singleton_cases, check_singleton),
    "histories": leg("histories", history_cases, check_history),
}

META = {
    "technique": "bounded-exhaustive enumeration of generated class definitions (programs), field values, embedding contexts and transport paths "
    "against a structural equality oracle",
    "rule": "shapes: every class hierarchy with storage in {__dict__, __slots__, slots on dict base, dict on slots base}, depth 0-2 (thorough 0-3), "
    "0-2 fields per level drawn from {public, protected, name-mangled}, through dump/load (top) and dumps/loads (in a list), and the depth 0-1 hierarchies "
    "again with class names that start with one or two underscores, and every mix of slotted / non-slotted classes over 3 (thorough 4) levels; values: 13 representative "
    "hierarchies x each field over 17 values (primitives, containers, and values of subclass types: OrderedDict, Counter, dict/list/str/int subclasses, namedtuple) (all pairs for 2-field classes) x 8 contexts (top, containers, beans, 40 levels deep) x 6 paths (dump/load, dumps/loads, RPC parameter and result under "
    "1.0 and 2.0) x module-qualified / locally registered; serialize: serialisation-method classes (list args, dict args, custom method name) x 8 "
    "attribute values x contexts x paths; singletons: 5 enum members, 7 Decimals and 3 fractions.Fraction objects (a slotted standard-library class) x contexts x paths; histories: every sequence of 3 (thorough 5) round trips "
    "over 4 classes x {module-qualified, local in a table of its own, local re-registered under the same bare name in the shared table (newest registration wins)}; every case is non-trivial",
    "bounds": {"quick": {"depth": 2, "fields_per_level": 2}, "thorough": {"depth": 3, "fields_per_level": 2}},
    "assumptions": [
        "generated classes accept a no-argument constructor (the translator's documented requirement)",
        "locally registered classes live in a module named __main__ (the only case in which the translator emits a bare class name)",
        "enumerations derived from a primitive type and tuple-valued members are outside the alphabet",
    ],
}


def replay(case):
    c = eval(case["case"], dict(gen.SUBTYPE_ENV, __builtins__={}, set=set, frozenset=frozenset), {})
    if case["leg"] == "singletons":
        return check_singleton(c).viols
    if case["leg"] == "histories":
        return check_history(c).viols
    return run_case(c).viols
