"""C19 - transport faults are contained: no foreign results, and the proxy recovers.

E2: every sequence of <=D peer behaviours over the property's fault alphabet (12 letters, plus the
truncation and reset faults striking in the middle of a large body), followed by three healthy exchanges, is played by a scripted peer
against one real ServerProxy (real HTTPConnection / xmlrpc Transport /
jsonrpclib transports over an in-memory socket), for TCP and Unix transports
and for calls, notifications and batches.  A kernel leg replays shorter
sequences over real loopback TCP and Unix sockets.
"""
import itertools
import os
import shutil
import socket
import tempfile
import threading

import jsonrpclib
import jsonrpclib.jsonrpc as J

from mc import env
from mc.core import Out, drive

NON200 = {"E4XX_LEN": 404, "E5XX_LEN": 500, "E5XX_NOLEN": 500, "BODILESS": 204, "E4XX_BIN": 404, "E500_JSONCT": 500, "E204_LEN": 204, "E4XX_BIGUTF8": 403,
          "E599_NOREASON": 599, "E520_BLANKREASON": 520, "E404_NOREASON": 404, "E299_OK": 299, "E302_LEN": 302}
URLS = {"tcp": "http://peer.test:8080/rpc?x=1", "unix": "unix+http://./sock", "unix-rel": "unix+http:run/rel.sock"}


class Client(object):
    def __init__(self, url, kind):
        self.proxy = jsonrpclib.ServerProxy(url)
        self.kind = kind
        self.n = 0
        self.url = url

    def call(self):
        """-> ('val', ok, detail) | ('exc', exception)"""
        self.n += 1
        t = "tok-%d" % self.n
        p = self.proxy
        try:
            if self.kind == "call":
                r = p.echo(t)
                return ("val", r == t and type(r) is str, r)
            if self.kind == "notify":
                r = p._notify.echo(t)
                return ("val", r is None, r)
            mc = jsonrpclib.MultiCall(p)
            mc.echo(t + "a")
            mc._notify.echo(t + "n")
            mc.echo(t + "b")
            res = mc()
            out = []
            ok = True
            for i, want in ((0, t + "a"), (1, t + "b")):
                try:
                    v = res[i]
                    out.append(v)
                    if v != want:
                        ok = False
                except AssertionError:
                    raise
                except Exception as ex:
                    out.append(("raises", type(ex).__name__))
            try:
                extra = res[2]
                ok = False
                out.append(("extra", extra))
            except AssertionError:
                raise
            except Exception:
                pass
            return ("val", ok, out)
        except AssertionError:
            raise
        except Exception as ex:
            return ("exc", ex)


def conn_state(proxy):
    t = proxy("transport")
    c = getattr(t, "_connection", (None, None))
    if not c or c[1] is None:
        return ("none",)
    sock = getattr(c[1], "sock", None)
    if sock is None:
        return ("conn-no-sock",)
    return ("open", getattr(sock, "peer_closed", None), getattr(sock, "reset", None), len(getattr(sock, "out", b"")))


def run_sequence(seq, transport, kind, states=None):
    """Plays one fault sequence; returns (violations, per-call outcome classes, transitions)."""
    peer = env.ScriptPeer(seq)
    viols = []
    classes = []
    ncalls = 0
    run_sequence.positions = positions = []
    addrs = []
    orig_connect = env.PeerSocket.connect
    cwd = os.getcwd()
    if transport == "unix-rel":
        def rec_connect(self, addr):
            addrs.append(os.path.abspath(addr) if isinstance(addr, str) else addr)  # the socket the kernel would resolve right now
            return orig_connect(self, addr)
        env.PeerSocket.connect = rec_connect
    try:
        return _run_sequence(peer, seq, transport, kind, states, viols, classes, positions, addrs)
    finally:
        env.PeerSocket.connect = orig_connect
        os.chdir(cwd)


def _run_sequence(peer, seq, transport, kind, states, viols, classes, positions, addrs):
    ncalls = 0
    with env.client_net(peer):
        c = Client(URLS[transport], kind)
        tail = 0
        guard = 0
        while tail < 3:
            guard += 1
            if guard > len(seq) + 8:
                viols.append(("C19/script-not-consumed", "calls do not consume the script: %r" % (peer.consumed,)))
                break
            in_script = peer.pos < len(seq)
            before = peer.pos
            try:
                res = c.call()
            except AssertionError as ex:
                viols.append(("C19/client-would-hang", "sequence %r call %d: %s" % (seq, c.n, ex)))
                break
            ncalls += 1
            positions.append(peer.pos)
            if transport == "unix-rel":
                # the process changes its working directory between calls: the socket named by the URL stays the same one
                os.chdir("/" if os.getcwd() != "/" else "/var")
                if len(set(addrs)) > 1:
                    viols.append(("C19/unix/reconnects-to-a-different-socket", "sequence %r: connections went to %r after the working directory changed" % (seq, addrs)))
                    break
            consumed = peer.consumed[before:]
            last = consumed[-1][0] if consumed else None
            if states is not None:
                states.add((conn_state(c.proxy), min(peer.pos, len(seq))))
            if res[0] == "val":
                classes.append("ok" if res[1] else "WRONG")
                if not res[1]:
                    viols.append(("C19/%s/foreign-or-wrong-result" % kind,
                                  "sequence %r (%s, %s): call %d returned %r, which is not the result of its own request (peer consumed %r)"
                                  % (seq, transport, kind, c.n, res[2], consumed)))
            else:
                ex = res[1]
                classes.append(type(ex).__name__)
                # the status clause is judged when the proxy was in a clean state: every earlier behaviour was a healthy exchange
                clean = all(b in ("OK_KA", "OK_CLOSE") for b, _ in peer.consumed[:before]) and len(consumed) == 1
                if last in NON200 and clean:
                    if not isinstance(ex, J.TransportError):
                        viols.append(("C19/non-200-not-TransportError",
                                      "sequence %r (%s, %s): call %d got status %d (%s) and raised %r" % (seq, transport, kind, c.n, NON200[last], last, ex)))
                    else:
                        if ex.errcode != NON200[last]:
                            viols.append(("C19/TransportError-wrong-status", "status %d reported as %r" % (NON200[last], ex.errcode)))
                        want_url = {"tcp": "peer.test:8080/rpc?x=1", "unix": "./", "unix-rel": "/"}[transport]
                        if not str(ex.url).endswith("/rpc?x=1") and transport == "tcp" or (transport == "tcp" and "peer.test:8080" not in str(ex.url)):
                            viols.append(("C19/TransportError-wrong-url", "url %r, expected host+handler %r" % (ex.url, want_url)))
            if last in NON200 and res[0] == "val":
                viols.append(("C19/non-200-not-raised", "sequence %r (%s, %s): call %d got %s and returned %r" % (seq, transport, kind, c.n, last, res[2])))
            if not in_script:
                tail += 1
                if tail >= 2 and not (res[0] == "val" and res[1]):
                    viols.append(("C19/%s/no-recovery" % kind,
                                  "sequence %r (%s, %s): healthy exchange #%d after the faults still fails: %r (peer consumed %r)"
                                  % (seq, transport, kind, tail, res[1] if res[0] == "exc" else res[2], peer.consumed)))
                    break
    return viols, classes, ncalls


def fault_cases(tier, transport):
    D = 4 if tier == "thorough" else 3
    for d in range(1, D + 1):
        for seq in itertools.product(env.ALPHABET, repeat=d):
            kinds = ("call", "notify", "batch") if d < 4 else ("call", "batch")
            for kind in kinds:
                yield (seq, transport, kind)
    if tier == "thorough" and transport == "tcp":
        for seq in itertools.product(env.ALPHABET, repeat=5):
            yield (seq, transport, "call")
    # the further behaviours: alone, in every pair with a behaviour of the base alphabet (both orders), and in triples with two healthy/plain faults
    full = list(env.ALPHABET) + list(env.EXTENDED)
    for x in env.EXTENDED:
        for kind in ("call", "notify", "batch"):
            yield ((x,), transport, kind)
            for y in full:
                yield ((x, y), transport, kind)
                if y not in env.EXTENDED:
                    yield ((y, x), transport, kind)
        for y, z in itertools.product(("OK_KA", "OK_CLOSE", "CLOSE0", "E4XX_LEN", "TRUNC"), repeat=2):
            for kind in ("call", "batch"):
                yield ((y, x, z), transport, kind)
                yield ((y, z, x), transport, kind)
    if transport == "unix":
        # a socket path given relative to the working directory, which changes between calls
        for d in (1, 2):
            for seq in itertools.product(env.ALPHABET, repeat=d):
                yield (seq, "unix-rel", "call")
    # long histories (the proxy after many faults / many healthy exchanges behaves like a fresh one)
    n = 150 if tier == "thorough" else 40
    for f in env.ALPHABET:
        for kind in ("call", "batch"):
            yield (("LONG", "repeat", f, n), transport, kind)
            yield (("LONG", "healthy-then", f, 4 * n), transport, kind)
            yield (("LONG", "alternate", f, n), transport, kind)
    for kind in ("call", "notify", "batch"):
        yield (("LONG", "cycle", "", 6), transport, kind)


def expand(seq):
    if not seq or seq[0] != "LONG":
        return seq
    _, pattern, f, n = seq
    if pattern == "repeat":
        return (f,) * n
    if pattern == "healthy-then":
        return ("OK_KA",) * n + (f, "OK_KA", f)
    if pattern == "alternate":
        return (f, "OK_KA") * n
    return tuple(env.ALPHABET) * n


def check_fault(case):
    seq, transport, kind = case
    seq = expand(seq)
    states = set()
    viols, classes, ncalls = run_sequence(seq, transport, kind, states)
    out = Out(cls=",".join(sorted(set(classes)))[:80])
    out.states = states
    out.ncalls = ncalls
    for sig, detail in viols:
        out.bad(sig, detail)
    return out


def _leg(transport):
    def run(part, tier, shard, nshards):
        def ev(case):
            out = check_fault(case)
            for s in out.states:
                part.add_to_set("states", s)
            part.count("transitions", out.ncalls)
            part.count("traces_validated_against_impl")
            return out
        drive(part, "faults-" + transport, fault_cases(tier, transport), shard, nshards, ev)
    return run


# ---------------------------------------------------------------------------
# kernel leg: the same sequences over real sockets


class KernelPeer(object):
    """The scripted peer over a real listening socket (TCP loopback or Unix)."""

    def __init__(self, script, family, address):
        self.script = list(script)
        self.pos = 0
        self.consumed = []
        self.family = family
        self.address = address
        self.listener = None
        self.conn = None
        self.buf = b""
        self.open_listener()

    def open_listener(self):
        s = socket.socket(self.family, socket.SOCK_STREAM)
        if self.family == socket.AF_INET:
            s.setsockopt(socket.SOL_SOCKET, socket.SO_REUSEADDR, 1)
        else:
            try:
                os.unlink(self.address)
            except OSError:
                pass
        s.bind(self.address)
        s.listen(4)
        if self.family == socket.AF_INET:
            self.address = s.getsockname()
        self.listener = s

    def close_listener(self):
        if self.listener is not None:
            self.listener.close()
            self.listener = None
            if self.family != socket.AF_INET:
                try:
                    os.unlink(self.address)
                except OSError:
                    pass

    def peek(self):
        return self.script[self.pos] if self.pos < len(self.script) else "OK_KA"

    def stage(self):
        """Makes the listener state match the next behaviour (closed iff the next attempt must be refused)."""
        if self.peek() == "REFUSE" and self.conn is None:
            self.close_listener()
        elif self.listener is None:
            self.open_listener()

    def after_call(self, model_pos=None):
        """Called by the driver when a client call returned.  A refusal cannot be observed by a closed listener, so
        whether the call consumed it is taken from the model run of the same sequence (script position after the call)."""
        while self.listener is None and self.peek() == "REFUSE" and self.conn is None and (model_pos is None or self.pos < model_pos):
            self.consumed.append(("REFUSE", "connect"))
            self.pos += 1
            if self.peek() != "REFUSE":
                break
        self.stage()

    def close_conn(self, reset=False):
        if self.conn is not None:
            if reset:
                import struct
                self.conn.setsockopt(socket.SOL_SOCKET, socket.SO_LINGER, struct.pack("ii", 1, 0))
            # make sure a following refusal is in place before the client can notice the closure
            c = self.conn
            self.conn = None
            self.stage()
            c.close()

    def serve_call(self):
        """Runs in the peer thread for the duration of one client call: serves requests until told to stop."""
        while not self.stop_flag.is_set():
            if self.conn is None:
                if self.listener is None:
                    self.stop_flag.wait(0.01)
                    continue
                self.listener.settimeout(0.02)
                try:
                    self.conn, _ = self.listener.accept()
                except socket.timeout:
                    continue
                except OSError:
                    continue
                self.buf = b""
            self.conn.settimeout(0.02)
            try:
                data = self.conn.recv(65536)
            except socket.timeout:
                continue
            except OSError:
                self.conn = None
                self.stage()
                continue
            if not data:
                self.conn.close()
                self.conn = None
                self.stage()
                continue
            self.buf += data
            self.handle()

    def handle(self):
        import json as _json

        while True:
            i = self.buf.find(b"\r\n\r\n")
            if i < 0:
                return
            head = self.buf[:i]
            cl = 0
            for line in head.decode("latin-1").split("\r\n")[1:]:
                k, _, v = line.partition(":")
                if k.lower() == "content-length":
                    cl = int(v)
            if len(self.buf) < i + 4 + cl:
                return
            body = self.buf[i + 4:i + 4 + cl]
            self.buf = self.buf[i + 4 + cl:]
            try:
                parsed = _json.loads(body.decode("utf-8"))
            except Exception:
                parsed = None
            b = self.peek()
            self.pos += 1
            self.consumed.append((b, "request"))
            if b == "REFUSE":
                b = "CLOSE0"
            good = env.ok_body(parsed)

            def send(data, conn=self.conn):
                try:
                    conn.sendall(data)
                except OSError:
                    pass  # the client has gone away: nothing more to tell it

            if b == "OK_KA":
                send(env.http_resp(200, "OK", good))
            elif b == "OK_CLOSE":
                send(env.http_resp(200, "OK", good, ka=False))
                self.close_conn()
                return
            elif b == "CLOSE0":
                self.close_conn()
                return
            elif b == "RESET":
                self.close_conn(reset=True)
                return
            elif b == "E4XX_LEN":
                send(env.http_resp(404, "Not Found", env.http_resp(200, "OK", good)))
            elif b == "E5XX_LEN":
                send(env.http_resp(500, "Internal Server Error", env.http_resp(200, "OK", good)))
            elif b == "E5XX_NOLEN":
                send(env.http_resp(500, "Internal Server Error", good, length=False))
                self.close_conn()
                return
            elif b == "BODILESS":
                send(b"HTTP/1.1 204 No Content\r\n\r\n")
            elif b == "TRUNC":
                send(env.http_resp(200, "OK", good + b"x" * 16)[:-8])
                self.close_conn()
                return
            elif b == "TRUNC_BIG":
                send(env.http_resp(200, "OK", b'"' + env.BIG_PAD + b'"')[:-1200])
                self.close_conn()
                return
            elif b == "RESET_MID":
                send(env.http_resp(200, "OK", b'"' + env.BIG_PAD + b'"')[:-1200])
                self.close_conn(reset=True)
                return
            elif b == "EMPTY200":
                send(env.http_resp(200, "OK", b""))
            elif b == "GARBAGE200":
                send(env.http_resp(200, "OK", b"<html>not json</html>"))
            self.stage()


def run_kernel(seq, transport, kind, model_positions=()):
    """Plays a sequence over real sockets; returns (violations, classes)."""
    tmp = tempfile.mkdtemp(prefix="c19k", dir=os.environ.get("VERIF_SCRATCH", "/var/tmp"))
    viols, classes = [], []
    peer = None
    try:
        if transport == "tcp":
            peer = KernelPeer(seq, socket.AF_INET, ("127.0.0.1", 0))
            url = "http://127.0.0.1:%d/rpc?x=1" % peer.address[1]
        else:
            path = os.path.join(tmp, "s")
            peer = KernelPeer(seq, socket.AF_UNIX, path)
            url = "unix+http://" + path
        peer.stage()
        c = Client(url, kind)
        tail = 0
        while tail < 3 and c.n < len(seq) + 8:
            in_script = peer.pos < len(seq)
            peer.stop_flag = threading.Event()
            th = threading.Thread(target=peer.serve_call, daemon=True)
            th.start()
            socket.setdefaulttimeout(30)
            try:
                res = c.call()
            finally:
                socket.setdefaulttimeout(None)
                peer.stop_flag.set()
                th.join(5)
            peer.after_call(model_positions[c.n - 1] if c.n - 1 < len(model_positions) else None)
            if res[0] == "val":
                classes.append("ok" if res[1] else "WRONG")
                if not res[1]:
                    viols.append(("C19/%s/foreign-or-wrong-result/kernel" % kind, "sequence %r over kernel %s: call %d returned %r" % (seq, transport, c.n, res[2])))
            else:
                classes.append("exc")
            if not in_script:
                tail += 1
                if tail >= 2 and not (res[0] == "val" and res[1]):
                    viols.append(("C19/%s/no-recovery/kernel" % kind, "sequence %r over kernel %s: healthy exchange #%d still fails: %r" % (seq, transport, tail, res)))
                    break
        try:
            c.proxy("close")()
        except Exception:
            pass
    finally:
        if peer is not None:
            if peer.conn is not None:
                try:
                    peer.conn.close()
                except OSError:
                    pass
            peer.close_listener()
        shutil.rmtree(tmp, ignore_errors=True)
    return viols, classes


def kernel_cases(tier):
    D = 2
    for transport in ("tcp", "unix"):
        for d in range(1, D + 1):
            for seq in itertools.product(env.ALPHABET, repeat=d):
                if transport == "unix" and "RESET_MID" in seq:
                    continue  # an AF_UNIX peer cannot be made to deliver a reset in the middle of a body deterministically
                for kind in (("call", "batch") if d == 2 else ("call", "notify", "batch")):
                    if tier == "quick" and d == 2 and kind == "batch":
                        continue
                    yield (seq, transport, kind)


def outcome_class(c):
    return "ok" if c == "ok" else ("WRONG" if c == "WRONG" else "exc")


def check_kernel(case):
    seq, transport, kind = case
    viols_m, classes_m, _ = run_sequence(seq, transport, kind)
    positions = list(run_sequence.positions)
    viols_k, classes_k = run_kernel(seq, transport, kind, positions)
    if viols_k:
        # real sockets and threads: a verdict must reproduce before it is believed (a loaded machine can hit a socket timeout)
        viols_2, classes_2 = run_kernel(seq, transport, kind, positions)
        sigs = {sig for sig, _ in viols_2}
        viols_k = [v for v in viols_k if v[0] in sigs]
        classes_k = classes_2
    out = Out(cls="kernel:" + ",".join(sorted(set(classes_k))))
    for sig, detail in viols_k:
        out.bad(sig, detail)
    out.match = [outcome_class(c) for c in classes_m] == classes_k
    out.detail = (case, [outcome_class(c) for c in classes_m], classes_k)
    return out


def leg_kernel(part, tier, shard, nshards):
    def ev(case):
        out = check_kernel(case)
        if out.match:
            part.count("kernel_transcripts_matching_model")
        else:
            part.count("conformance_mismatches")
            m = part.notes.setdefault("conformance_mismatch_samples", [])
            if len(m) < 5:
                m.append(repr(out.detail))
        return out
    drive(part, "kernel", kernel_cases(tier), shard, nshards, ev)


LEGS = {"faults-tcp": _leg("tcp"), "faults-unix": _leg("unix"), "kernel": leg_kernel}

META = {
    "engine": "E2-fake-network-history-search",
    "technique": "explicit enumeration of fault sequences (histories) against the real client stack over a deterministic in-memory socket layer with a "
    "scripted peer; per-call token oracle; conformance leg over kernel TCP/Unix sockets",
    "rule": "every sequence of 1..3 (thorough 1..4) behaviours over {OK_KA, OK_CLOSE, REFUSE, CLOSE0, RESET, E4XX_LEN, E5XX_LEN, E5XX_NOLEN, BODILESS, TRUNC, "
    "EMPTY200, GARBAGE200, TRUNC_BIG, RESET_MID}, consumed one per connection attempt or per request read, followed by three healthy exchanges, x {Transport over TCP, UnixTransport} "
    "x {call, notification, batch of call+notification+call}; 9 further behaviours (status lines without a reason phrase and codes outside the registry, a 299 reply, binary and large multi-byte error bodies, a 500 carrying the JSON-RPC content type and a foreign result, a truncated error body, a 204 "
    "announcing a length) alone, in every pair with any behaviour and in triples with 5 base behaviours; long histories: each behaviour repeated 40 (thorough 150) times, each after 160 (600) healthy "
    "exchanges, each alternating with healthy exchanges, and 6 cycles through the alphabet; states = distinct (cached connection state, unread bytes, script position) after a call, "
    "transitions = client calls; kernel leg: sequences of length <=2 over real loopback TCP and Unix sockets, outcome classes compared with the model; "
    "non-trivial = every sequence (each contains at least one scripted behaviour)",
    "bounds": {"quick": {"D": 3, "kernel_D": 2}, "thorough": {"D": "4 (5 for plain calls over TCP)", "kernel_D": 2}},
    "assumptions": [
        "the peer never injects an unsolicited complete HTTP response on a kept-alive connection (not a fault of the property's list)",
        "in-memory sockets: a read on an empty buffer of an open connection would block forever and is reported as a hang",
        "kernel-leg disagreements with the model are recorded (conformance_mismatches), not violations; the token oracle is evaluated on both legs",
    ],
}


def replay(case):
    c = eval(case["case"], {"__builtins__": {}}, {})
    if case["leg"] == "kernel":
        return check_kernel(c).viols
    return check_fault(c).viols
