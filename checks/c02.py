"""C02 - the server answers every request body with a well-formed reply and never raises.

E3: every body of a finite grammar (objects over the four envelope members,
top-level scalars, batches, truncations and single-character corruptions of a
seed corpus, non-JSON Unicode texts, __jsonclass__ descriptors) x server
version x class translation on/off x default/custom dispatch is fed to the
real dispatcher; the reply must be '' or parse to well-formed response
object(s).
"""
import itertools
import json

from mc import bodies as B
from mc import httpdrive
from mc.core import Out, drive
from mc.ref import server as ref

from checks import _server_common as sc

PROPS = ("C02",)
VERSIONS = (2.0, 1.0)


def worlds(tier, jsonclass=(True, False), dispatches=("default", "custom-ok")):
    return [(v, j, d, None) for v in VERSIONS for j in jsonclass for d in dispatches]


def cases_objects(tier):
    ws = worlds(tier)
    for o in B.member_objects():
        body = B.dumps(o)
        for w in ws:
            yield (w, body)


def cases_batches(tier):
    labels = [l for l, _ in B.ENTRIES] if tier == "thorough" else B.QUICK_ENTRIES
    maxlen = 3 if tier == "thorough" else 2
    ws = worlds(tier, jsonclass=(True,), dispatches=("default", "custom-ok", "custom-raise"))
    ws += [(2.0, True, "default", "dispatching"), (1.0, True, "default", "plain"), (2, True, "default", None), (1, False, "custom-ok", None)]
    for t in B.TOPLEVEL:
        for w in ws:
            yield (w, B.dumps(t))
    if tier == "thorough":
        # length 3 over all 24 entries is 13 824 batches per world: keep two worlds for it
        for b in B.batches(labels, 2):
            for w in ws:
                yield (w, B.dumps(b))
        for combo in itertools.product(labels, repeat=3):
            body = B.dumps([B.ENTRY_MAP[c] for c in combo])
            for w in ws[:2]:
                yield (w, body)
    else:
        for b in B.batches(labels, maxlen):
            for w in ws:
                yield (w, B.dumps(b))


def cases_corrupt(tier):
    seeds = B.SEEDS if tier == "thorough" else B.SEEDS[:6]
    ws = [(2.0, True, "default", None), (1.0, False, "default", None)]
    seen = set()
    for s in seeds:
        for t in itertools.chain(B.truncations(s), B.corruptions(s)):
            if t in seen:
                continue
            seen.add(t)
            for w in ws:
                yield (w, t)
    if tier == "thorough":
        for s in sorted(B.SEEDS, key=len)[:3]:
            for t1 in B.corruptions(s):
                if len(t1) > len(s):
                    continue
                for i in range(0, len(t1), 3):
                    for c in '{["\\,':
                        t = t1[:i] + c + t1[i + 1:]
                        if t not in seen:
                            seen.add(t)
                            yield (ws[0], t)
    for t in B.NONJSON:
        for w in ws:
            yield (w, t)
    # texts holding code points no encoder accepts (raw lone surrogates), alone and inside an otherwise valid request
    for t in ("\ud800", "\udfff\ud800", '"\udc00"', '{"jsonrpc":"2.0","method":"echo","params":["\ud83d"],"id":1}',
              '{"jsonrpc":"2.0","method":"f","id":"\udc00"}', '[{"jsonrpc":"2.0","method":"\ud800","id":1}]', '{"jsonrpc":"2.0","method":"f","params":{"\udfff":1}}'):
        for w in ws:
            yield (w, t)
    # pure-ASCII texts in which a string spells a lone surrogate as an escape (valid for the grammar, accepted by the parser) and is echoed by the server
    for t in ('{"jsonrpc":"2.0","method":"echo","params":["\\ud83d"],"id":1}', '{"jsonrpc":"2.0","method":"pair","params":[1,2],"id":"a\\udc00"}', '{"method":"nosuch\\ud800","params":[],"id":1}',
              '[{"jsonrpc":"2.0","method":"pair","params":[1,2],"id":["\\udfff"]},{"jsonrpc":"2.0","method":"\\ud800","id":{"\\ud800":1}}]', '{"jsonrpc":"2.0","method":"boom","id":"\\ud83d\\ud83d"}'):
        for w in ws:
            yield (w, t)


# -- __jsonclass__ descriptors (translation on) ---------------------------------

DESCRIPTORS = [
    ["decimal.Decimal", ["1.5"]],
    ["mc.ref.beans.Plain", []],
    ["mc.ref.beans.Plain", {}],
    ["no_such_module_zz.Cls", []],
    ["decimal.NoSuchClass", []],
    ["bad name!", []],
    ["", []],
    ["é.x", []],
    [],
    ["decimal.Decimal"],
    ["decimal.Decimal", "1.5"],
    ["decimal.Decimal", 5],
    ["decimal.Decimal", None],
    ["decimal.Decimal", ["1.5"], "extra"],
    ["decimal.Decimal", ["not-a-number"]],
    ["decimal.Decimal", [1, 2, 3, 4, 5]],
    ["decimal.Decimal", {"nokw": 1}],
    "decimal.Decimal",
    5,
    None,
    True,
    {},
    {"a": 1},
    [5, []],
    [None, []],
    [["decimal.Decimal"], []],
    ["Plain", []],
    ["builtins.int", ["f" * 5000, 16]],  # a side-effect-free class yielding a value that str()/format() refuse (int digit limit)
    ["builtins.int", ["7"]],
]


def cases_jsonclass(tier):
    ws = [(2.0, True, "default", None), (1.0, True, "default", None), (2.0, True, "custom-ok", None)]
    for d in DESCRIPTORS:
        x = {"__jsonclass__": d}
        xa = {"__jsonclass__": d, "attr": 1, "nested": {"__jsonclass__": ["", []]}}
        places = [
            {"jsonrpc": "2.0", "method": "echo", "params": [x], "id": 1},
            {"jsonrpc": "2.0", "method": "echo", "params": {"x": x}, "id": 1},
            {"jsonrpc": "2.0", "method": "echo", "params": [[{"k": x}]], "id": 1},
            {"jsonrpc": "2.0", "method": "echo", "params": [1], "id": x},
            {"method": "echo", "params": [1], "id": x},
            {"jsonrpc": "2.0", "method": x, "params": [1], "id": 1},
            {"jsonrpc": x, "method": "echo", "params": [1], "id": 1},
            {"jsonrpc": "2.0", "method": "echo", "params": x, "id": 1},
            x,
            dict(x, jsonrpc="2.0", method="echo", id=1),
            [x],
            [{"jsonrpc": "2.0", "method": "echo", "params": [x], "id": 1}, {"jsonrpc": "2.0", "method": "f", "id": 2}],
            {"jsonrpc": "2.0", "method": "echo", "params": [xa], "id": 1},
            {"jsonrpc": "2.0", "method": "f", "params": [x]},
            {"data": x},
            [{"data": x}, {"jsonrpc": "2.0", "method": "f", "id": 4}],
            {"jsonrpc": "2.0", "method": "nosuch", "params": [1], "id": x},
            {"method": "boom", "params": [], "id": x},
            [{"jsonrpc": "2.0", "method": "f", "id": 5}, {"jsonrpc": "2.0", "method": "boom", "id": x}, {"method": "pair", "params": [1], "id": x}],
            [{"method": "f", "params": [], "id": 6}, {"method": "nosuch", "params": [], "id": x}],
        ]
        for p in places:
            for w in ws:
                yield (w, B.dumps(p))


def leg(name, casegen):
    def run(part, tier, shard, nshards):
        sc.body_leg(part, name, PROPS, casegen(tier), shard, nshards)
    return run


# -- the same through the real HTTP handler --------------------------------------


def cases_http(tier):
    step = 7 if tier == "quick" else 2
    ws = [(2.0, True, "default", None), (1.0, False, "default", None)]
    src = itertools.chain(cases_batches("quick"), cases_corrupt("quick"))
    for i, (w, body) in enumerate(src):
        if i % step == 0:
            yield (ws[i // step % 2], body)
    for i, (w, body) in enumerate(cases_jsonclass("quick")):
        if i % 3 == 0:
            yield (ws[0], body)
    # every non-JSON text (byte order marks, control characters, other encodings' leftovers), also in front of a valid request
    for t in B.NONJSON:
        for w in ws:
            yield (w, t)
    for prefix in ("\ufeff", "\ufeff\ufeff", "\u200b", "\x00", "\ufffe"):
        for w in ws:
            yield (w, prefix + B.SEEDS[0])
            yield (w, prefix + "[" + B.SEEDS[1] + "]")
    for seed in B.SEEDS[:6] + ["", "5", "[]"]:
        for w in ws:
            try:
                seed.encode("ascii")
            except UnicodeEncodeError:
                continue
            yield (w, ("TRUNCATED", seed))


def check_truncated(key, body):
    """The request declares more body bytes than it delivers and the client half-closes: the handler must still answer."""
    w = sc.world(key)
    out = Out(cls="http-truncated")
    raw = body.encode("utf-8")
    try:
        status, headers, reply = httpdrive.post(w.d, raw, declared=len(raw) + 7)
    except Exception as ex:
        return out.bad("C02/do_POST-raises-%s-on-truncated-body" % type(ex).__name__, "truncated body %r raised %r" % (body, ex))
    spun = getattr(httpdrive.post, "last_rfile", None)
    if spun is not None and spun.eof_reads > 50:
        return out.bad("C02/do_POST-keeps-reading-after-end-of-body", "truncated body %r: %d reads after the end of the stream" % (body, spun.eof_reads))
    out.cls = "http-truncated:%s" % status
    if status not in (200, 400):
        out.bad("C02/do_POST-status-%s-on-truncated-body" % status, "truncated body %r answered %s %r" % (body, status, reply[:200]))
    elif status == 200 and reply:
        try:
            r = json.loads(reply.decode("utf-8"))
            objs = r if isinstance(r, list) else [r]
            for o in objs:
                wf = ref.wellformed(o)
                if wf:
                    out.bad("C02/malformed-response-object/http", "truncated body %r: %s in %r" % (body, wf, reply))
                    break
        except ValueError:
            out.bad("C02/reply-not-json/http", "truncated body %r -> %r" % (body, reply))
    return out


def check_http(case):
    key, body = case
    if isinstance(body, tuple):
        return check_truncated(key, body[1])
    w = sc.world(key)
    out = Out(cls="http")
    try:
        raw = body.encode("utf-8")
    except UnicodeEncodeError:
        out.nontrivial = False
        out.cls = "out-of-domain:not-encodable"
        return out
    viols, label, in_domain = ref.evaluate_body(w, body)
    if not in_domain:
        out.nontrivial = False
        return out
    direct_raised = None
    try:
        direct = w.run(body)
    except Exception as ex:
        direct, direct_raised = None, ex
    try:
        status, headers, reply = httpdrive.post(w.d, raw)
    except Exception as ex:
        return out.bad("C02/do_POST-raises-%s" % type(ex).__name__, "do_POST on body %r raised %r" % (body, ex))
    out.cls = "http:%s" % status
    if status != 200:
        return out.bad("C02/do_POST-status-%s" % status, "do_POST on body %r answered status %s body %r" % (body, status, reply))
    if direct_raised is None:
        def norm(t):
            # two runs of one request may differ only inside error message texts (object addresses, generated ids)
            def strip(o):
                if isinstance(o, list):
                    return [strip(i) for i in o]
                if isinstance(o, dict):
                    return {k: ("<message>" if k == "message" else strip(v)) for k, v in o.items()}
                return o
            return strip(json.loads(t)) if t else None
        try:
            same = norm(reply.decode("utf-8")) == norm(direct)
        except ValueError:
            same = False
        if not same:
            return out.bad("C02/do_POST-body-differs-from-dispatcher", "body %r: HTTP reply %r, dispatcher reply %r" % (body, reply, direct))
    for prop, sig, detail in viols:
        if prop == "C02":
            out.bad(sig + "/http", detail)
    return out


def leg_http(part, tier, shard, nshards):
    drive(part, "http", cases_http(tier), shard, nshards, check_http)


def cases_scale(tier):
    return sc.scale_cases(tier, [(2.0, True, "default", None), (1.0, False, "custom-ok", None), (2, True, "custom-raise", None), (2.0, True, "default", "dispatching")])


LEGS = {
    "objects": leg("objects", cases_objects),
    "batches": leg("batches", cases_batches),
    "corrupt": leg("corrupt", cases_corrupt),
    "jsonclass": leg("jsonclass", cases_jsonclass),
    "http": leg_http,
    "scale": leg("scale", cases_scale),
}

META = {
    "technique": "bounded-exhaustive enumeration of request bodies against a well-formedness oracle (real dispatcher and real do_POST)",
    "rule": "objects: every object over jsonrpc(6) x id(18) x method(11) x params(13) member options; batches: top-level scalars and every "
    "batch of length <=2 (quick: 12-entry alphabet) / <=3 (thorough: 24 entries); corrupt: every truncation and every single-character "
    "deletion/substitution/insertion over a 14-character alphabet of 6 (quick) / 12 (thorough) seed requests plus 60 non-JSON texts, raw lone surrogates, and pure-ASCII requests spelling lone surrogates as escapes that the reply echoes (the reply must be encodable as UTF-8); "
    "jsonclass: 29 descriptor shapes x 16 placements; http: every 7th (quick) / 2nd (thorough) of those bodies through do_POST; "
    "scale: one body per size dimension beyond the small scope - batches of 1001/1025/2500 (thorough up to 20000) calls, notifications, mixed and failing "
    "entries, parameters and ids nested 25/60/150 (thorough 300) deep, strings/parameter lists/method names/ids/member sets of those lengths; "
    "x server version {1.0,2.0, and the integers 1, 2} x translation on/off x default/custom dispatch. A case is non-trivial when it is inside the property's "
    "domain (bodies with NaN/Infinity literals or overflowing numbers are counted as trivial and not judged)",
    "bounds": {"quick": {"batch_len": 2, "seeds": 6}, "thorough": {"batch_len": 3, "seeds": 12, "double_corruptions_of_shortest": 3}},
    "assumptions": [
        "registered callables return JSON-representable values or raise ordinary exceptions (property domain)",
        "descriptors name only side-effect-free classes (decimal.Decimal, a harness bean) or unresolvable/invalid names",
        "one dispatcher object per configuration is reused across cases (statelessness itself is C13's subject)",
    ],
}


def replay(case):
    if case["leg"] == "http":
        return check_http(eval(case["case"], {"__builtins__": {}}, {})).viols
    return sc.replay_body(PROPS, case)
