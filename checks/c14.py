"""C14 - message construction API emits exactly the members each version requires.

E3: the full product of (method, params, rpcid, version, methodresponse,
notify, config) is fed to the real dump()/dumps() and compared with a
reference envelope model written from the property text.
"""
import itertools
import json

import jsonrpclib
from jsonrpclib import jsonrpc as J
from jsonrpclib.config import Config

from mc import gen
from mc.core import Out, drive

FAULTS = [(-32000, "x", None), (5, "é", 0), (0, "", [1]), (-32700, "p", {"k": 1})]
METHODS = [None, "m", "é", "", 5, ["m"]]
PARAMS = [None, [], [1], (), (1, 2), {}, {"a": 1}, 5, "s", True, 0, "", False, 0.0, [0], [None], {"a": None}, [[]]] + [
    ("FAULT", i) for i in range(len(FAULTS))
] + [("FAULTID", 0), ("FAULTID", 1)] + [  # Faults that carry an id of their own (the caller's id still wins)
    gen.SUBTYPE_VALUES[0], gen.SUBTYPE_VALUES[1], gen.SUBTYPE_VALUES[3], gen.SUBTYPE_VALUES[4], gen.SUBTYPE_VALUES[5], gen.MyList(), gen.SUBTYPE_VALUES[6]]
RPCIDS = [None, "", "a", "0", 0, 0.0, 1, -1, 1.5, 2 ** 53]
VERSIONS = [None, 1.0, 2.0, "1.0", "2.0", 1, 2]
FLAGS = [None, True]
CONFIGS = ["default", "v1", "nojsonclass", "v1-nojsonclass", "v2int-nojsonclass"]


def mkconfig(name):
    if name == "default":
        return jsonrpclib.config.DEFAULT
    if name == "v1":
        return Config(version=1.0)
    if name == "v1-nojsonclass":
        return Config(version=1.0, use_jsonclass=False)
    if name == "v2int-nojsonclass":
        return Config(version=2, use_jsonclass=False, serialize_method="toJson")
    return Config(use_jsonclass=False)


def mkparams(p):
    if is_fault_marker(p):
        c, m, d = FAULTS[p[1]]
        if p[0] == "FAULTID":
            return J.Fault(c, m, rpcid=(41, "own")[p[1]], data=d)
        return J.Fault(c, m, data=d)
    return p


def is_fault_marker(p):
    return type(p) is tuple and len(p) == 2 and p[0] in ("FAULT", "FAULTID")


def is_caller_id(rpcid):
    """ids the property promises to use verbatim: non-empty strings and numbers (bool is not in the alphabet)."""
    if isinstance(rpcid, bool):
        return False
    if isinstance(rpcid, str):
        return rpcid != ""
    return isinstance(rpcid, (int, float))


GENERATED = []  # fresh ids produced during this shard (uniqueness is checked at the end)


def expect(method, params, rpcid, version, resp, notify, cfgname):
    """Reference envelope: returns ('raise',) | ('silent',) | ('request'|'notify'|'result'|'error', version)"""
    cfg = mkconfig(cfgname)
    v = float(version) if version else float(cfg.version)
    is_fault = is_fault_marker(params)
    is_container = params is None or isinstance(params, (list, tuple, dict))
    if is_fault:
        if method is None and resp:
            return ("error", v)
        return ("silent", v)  # Fault together with a method name / without response flag: unspecified
    if resp:
        if method is not None:
            return ("silent", v)  # response flag together with a method: unspecified
        if rpcid is None:
            return ("raise", v)
        if notify:
            return ("silent", v)
        return ("result", v)
    if not isinstance(method, str):
        return ("raise", v)
    if not is_container:
        return ("raise", v)
    return ("notify" if notify else "request", v)


def check_envelope(case, via):
    method, params, rpcid, version, resp, notify, cfgname = case
    out = Out()
    kind, v = expect(*case)
    cfg = mkconfig(cfgname)
    p = mkparams(params)
    try:
        if via == "dump":
            got = J.dump(p, method, rpcid, version, resp, notify, cfg)
        else:
            text = J.dumps(p, method, resp, None, rpcid, version, notify, cfg)
            if not isinstance(text, str):
                return out.bad("C14/dumps/not-text", "dumps returned %r" % (text,))
            got = json.loads(text)
    except (TypeError, ValueError) as ex:
        out.cls = "%s:raise" % kind
        if kind in ("raise", "silent"):
            out.nontrivial = kind == "raise"
            return out
        return out.bad(
            "C14/%s/unexpected-%s" % (kind, type(ex).__name__),
            "%s(%r) raised %r, expected a %s message" % (via, case, ex, kind),
        )
    except Exception as ex:
        out.cls = "%s:raise-other" % kind
        return out.bad(
            "C14/%s/raises-%s" % (kind, type(ex).__name__),
            "%s(%r) raised %r (only TypeError/ValueError may be raised)" % (via, case, ex),
        )
    out.cls = "%s:v%s" % (kind, v)
    if kind == "raise":
        return out.bad("C14/invalid-combination-emits", "%s(%r) returned %r, expected TypeError/ValueError" % (via, case, got))
    if not isinstance(got, dict):
        return out.bad("C14/not-a-dict", "%s(%r) returned %r" % (via, case, got))
    if kind == "silent":
        out.nontrivial = False
        return out
    keys = set(got)
    v2 = v >= 2
    if kind in ("request", "notify"):
        nonempty = bool(params)
        want = {"method", "id"}
        if v2:
            want.add("jsonrpc")
            if nonempty:
                want.add("params")
            if kind == "notify":
                want.discard("id")
        else:
            want.add("params")
        if keys != want:
            return out.bad(
                "C14/%s-v%d/member-set" % (kind, 2 if v2 else 1),
                "%s(%r) -> members %s, expected %s" % (via, case, sorted(keys), sorted(want)),
            )
        if v2 and got["jsonrpc"] != "2.0":
            return out.bad("C14/jsonrpc-marker", "%s(%r) -> jsonrpc=%r" % (via, case, got["jsonrpc"]))
        if not gen.same(got["method"], method):
            return out.bad("C14/method-changed", "%s(%r) -> method=%r" % (via, case, got["method"]))
        if "params" in got:
            if nonempty:
                wantp = gen.normalise(params) if via == "dumps" else params
                if not gen.same(gen.normalise(got["params"]), gen.normalise(wantp)):
                    return out.bad("C14/params-changed", "%s(%r) -> params=%r" % (via, case, got["params"]))
            elif got["params"] not in ([], {}) or isinstance(got["params"], bool):
                return out.bad("C14/params-changed", "%s(%r) -> params=%r for empty params" % (via, case, got["params"]))
        if kind == "notify":
            if not v2 and got["id"] is not None:
                return out.bad("C14/notify-v1/id-not-null", "%s(%r) -> id=%r" % (via, case, got["id"]))
        else:
            if is_caller_id(rpcid):
                if not gen.same(got["id"], rpcid):
                    return out.bad(
                        "C14/request/caller-id-not-verbatim",
                        "%s(%r) -> id=%r, expected the caller's id %r" % (via, case, got["id"], rpcid),
                    )
            else:
                if got["id"] in (None, "") or isinstance(got["id"], bool):
                    return out.bad("C14/request/no-fresh-id", "%s(%r) -> id=%r" % (via, case, got["id"]))
                if rpcid is None or rpcid == "":
                    GENERATED.append(got["id"])
        return out
    if kind == "result":
        want = {"result", "id", "jsonrpc"} if v2 else {"result", "id", "error"}
        if keys != want:
            return out.bad(
                "C14/result-v%d/member-set" % (2 if v2 else 1),
                "%s(%r) -> members %s, expected %s" % (via, case, sorted(keys), sorted(want)),
            )
        if v2 and got["jsonrpc"] != "2.0":
            return out.bad("C14/jsonrpc-marker", "%s(%r) -> jsonrpc=%r" % (via, case, got["jsonrpc"]))
        if not v2 and got["error"] is not None:
            return out.bad("C14/result-v1/error-not-null", "%s(%r) -> %r" % (via, case, got))
        if is_caller_id(rpcid) and not gen.same(got["id"], rpcid):
            return out.bad("C14/result/id-not-verbatim", "%s(%r) -> id=%r" % (via, case, got["id"]))
        if not gen.same(gen.normalise(got["result"]), gen.normalise(params)):
            return out.bad("C14/result/value-changed", "%s(%r) -> result=%r" % (via, case, got["result"]))
        return out
    if kind == "error":
        c, m, d = FAULTS[params[1]]
        want = {"error", "id", "jsonrpc"} if v2 else {"result", "id", "error"}
        if keys != want:
            return out.bad(
                "C14/error-v%d/member-set" % (2 if v2 else 1),
                "%s(%r) -> members %s, expected %s" % (via, case, sorted(keys), sorted(want)),
            )
        if not v2 and got["result"] is not None:
            return out.bad("C14/error-v1/result-not-null", "%s(%r) -> %r" % (via, case, got))
        err = got["error"]
        if not isinstance(err, dict) or not gen.same(err.get("code"), c) or not gen.same(err.get("message"), m):
            return out.bad("C14/error/code-message", "%s(%r) -> error=%r, Fault was %r" % (via, case, err, (c, m, d)))
        if (d is None) != ("data" not in err) or (d is not None and not gen.same(err["data"], d)):
            return out.bad("C14/error/data", "%s(%r) -> error=%r, Fault data was %r" % (via, case, err, d))
        if is_caller_id(rpcid) and not gen.same(got["id"], rpcid):
            return out.bad("C14/error/id-not-verbatim", "%s(%r) -> id=%r" % (via, case, got["id"]))
        return out
    raise AssertionError(kind)


def envelope_cases():
    return itertools.product(METHODS, PARAMS, RPCIDS, VERSIONS, FLAGS, FLAGS, CONFIGS)


def _leg_envelope(via):
    def leg(part, tier, shard, nshards):
        del GENERATED[:]
        drive(part, "envelope-" + via, envelope_cases(), shard, nshards, lambda c: check_envelope(c, via))
        # uniqueness of generated ids within this shard (every shard generates thousands)
        n = len(GENERATED)
        part.count("generated_ids", n)
        if len(set(map(repr, GENERATED))) != n:
            part.violation(
                "C14/request/generated-ids-repeat",
                {"leg": "ids", "case": "None"},
                "%d generated ids, only %d distinct" % (n, len(set(map(repr, GENERATED)))),
            )
    return leg


# -- fresh ids ---------------------------------------------------------------


def check_ids(case):
    version, notify_between, n = case
    out = Out(cls="ids")
    ids = []
    reseed = n == 3000 and notify_between
    for i in range(n):
        if reseed and i % 2 == 0:
            # sources of pseudo-randomness an application may reset at any time (fresh ids must not depend on them)
            import random
            random.seed(12345)
        d = J.dump([i], "m", None, version, None, None)
        ids.append(d["id"])
        if notify_between:
            J.dump([i], "m", None, version, None, True)
    if any(i in (None, "") for i in ids):
        out.bad("C14/request/no-fresh-id", "empty generated id among %r..." % ids[:3])
    if len(set(map(repr, ids))) != len(ids):
        out.bad("C14/request/generated-ids-repeat", "%d ids, %d distinct" % (len(ids), len(set(map(repr, ids)))))
    return out


def leg_ids(part, tier, shard, nshards):
    # one long run crosses every power-of-two boundary up to 2**16 (thorough 2**19): counters that wrap are reported
    cases = list(itertools.product([None, 1.0, 2.0], [False, True], [3000])) + [(2.0, False, 600000 if tier == "thorough" else 70000)]
    drive(part, "ids", cases, shard, nshards, check_ids)


# -- Fault.response / Fault.dump ----------------------------------------------


def fault_cases():
    return itertools.product(range(len(FAULTS)), [None, "a", 0, 7, 1.5], [None, 1.0, 2.0], ["response", "dump"], ["default", "v1"])


def check_fault(case):
    fi, rpcid, version, via, cfgname = case
    c, m, d = FAULTS[fi]
    cfg = mkconfig(cfgname)
    out = Out()
    v = float(version or cfg.version)
    f = J.Fault(c, m, rpcid=rpcid, config=cfg, data=d)
    try:
        got = f.response(version=version) if via == "response" else f.dump(version=version)
        if via == "response":
            got = json.loads(got)
    except Exception as ex:
        return out.bad("C14/fault-%s/raises" % via, "Fault%r.%s(version=%r) raised %r" % ((c, m, rpcid, d), via, version, ex))
    out.cls = "fault-%s:v%s" % (via, v)
    want = {"error", "id", "jsonrpc"} if v >= 2 else {"result", "id", "error"}
    if set(got) != want:
        return out.bad("C14/error-v%d/member-set" % (2 if v >= 2 else 1), "%r -> %r" % (case, got))
    err = got["error"]
    if not isinstance(err, dict) or not gen.same(err.get("code"), c) or not gen.same(err.get("message"), m):
        return out.bad("C14/error/code-message", "%r -> %r" % (case, got))
    if (d is None) != ("data" not in err) or (d is not None and not gen.same(err["data"], d)):
        return out.bad("C14/error/data", "%r -> %r" % (case, got))
    if not gen.same(got["id"], rpcid):
        return out.bad("C14/error/id-not-verbatim", "%r -> id=%r" % (case, got["id"]))
    return out


def leg_fault(part, tier, shard, nshards):
    drive(part, "fault", fault_cases(), shard, nshards, check_fault)


# -- round trip ----------------------------------------------------------------


def roundtrip_cases(tier):
    depth = 2 if tier == "thorough" else 1
    for v in itertools.islice(gen.json_values(depth, 2), 150000):
        for where in ("params-list", "params-dict", "result"):
            for version in (1.0, 2.0):
                yield (where, version, v)


ODD_KEYS = [1, 2.5, False, None, "b", "1"]


def jkey(k):
    return k if isinstance(k, str) else {True: "true", False: "false", None: "null"}.get(k) if isinstance(k, bool) or k is None else repr(k)


def oddkey_cases(tier):
    # dictionaries whose keys are JSON-representable non-strings, alone and mixed with strings and with each other (JSON normalisation: keys become strings)
    for n in (1, 2, 3):
        for ks in itertools.combinations(ODD_KEYS, n):
            if 1 in ks and "1" in ks:
                continue  # both normalise to "1"
            for nest in (0, 1):
                d = {k: i for i, k in enumerate(ks)}
                w = {jkey(k): i for i, k in enumerate(ks)}
                if nest:
                    d, w = {"outer": [d]}, {"outer": [w]}
                for where in ("params-list", "params-dict", "result", "fault-data"):
                    for version in (1.0, 2.0):
                        yield (where, version, (d, w))


def check_roundtrip(case):
    where, version, v = case
    out = Out(cls=where)
    vw = v
    if isinstance(v, tuple) and len(v) == 2 and isinstance(v[0], dict) and isinstance(v[1], dict):
        v, vw = v
    try:
        if where == "fault-data":
            text = J.Fault(-32000, "m", data=v).response(rpcid="r", version=version)
            back = J.loads(text)
            if not gen.same(back.get("error", {}).get("data"), vw) or back.get("id") != "r":
                return out.bad("C14/roundtrip/differs", "loads(Fault(data=%r).response()) = %r" % (v, back))
            return out
        if where == "params-list":
            text = J.dumps([v, v], "m", version=version, rpcid="i")
            want = {"method": "m", "id": "i", "params": [vw, vw]}
        elif where == "params-dict":
            text = J.dumps({"k": v, "é": v}, "m", version=version, rpcid=3)
            want = {"method": "m", "id": 3, "params": {"k": vw, "é": vw}}
        else:
            text = J.dumps(v, methodresponse=True, version=version, rpcid="r")
            want = {"result": vw, "id": "r"}
            if version < 2:
                want["error"] = None
        if version >= 2:
            want["jsonrpc"] = "2.0"
        back = J.loads(text)
    except Exception as ex:
        return out.bad("C14/roundtrip/raises-%s" % type(ex).__name__, "%r raised %r" % (case, ex))
    if not gen.same(back, want):
        return out.bad("C14/roundtrip/differs", "loads(dumps(%r)) = %r, expected %r" % (case, back, want))
    return out


def leg_roundtrip(part, tier, shard, nshards):
    drive(part, "roundtrip", itertools.chain(roundtrip_cases(tier), oddkey_cases(tier)), shard, nshards, check_roundtrip)
    if shard == 0:
        r = J.loads("")
        part.case(nontrivial_key=("loads-empty",), cls="loads-empty", leg="roundtrip")
        if r is not None:
            part.violation("C14/loads-empty", {"leg": "loads-empty", "case": "None"}, 'loads("") returned %r' % (r,))
        for cfgname in CONFIGS:
            r = J.loads("", mkconfig(cfgname))
            if r is not None:
                part.violation("C14/loads-empty", {"leg": "loads-empty", "case": "None"}, 'loads("", %s) returned %r' % (cfgname, r))


# -- pairs: a call must not depend on the call made before it ------------------------------------------

PAIR_CASES = [
    ("m", [1], "a", None, None, None, "default"), ("m", [1], "a", 1.0, None, None, "default"), ("m", {"k": 1}, 7, "2.0", None, None, "v1"),
    ("m", [], "b", None, None, True, "v1"), (None, [1], "r", None, True, None, "default"), (None, [1], "r", 1.0, True, None, "default"),
    (None, ("FAULT", 0), "e", None, True, None, "default"), (None, ("FAULT", 1), "e", 1.0, True, None, "v1"), ("m", (1, 2), 0, 2.0, None, None, "nojsonclass"),
    ("é", {}, 1.5, "1.0", None, None, "default"), ("m", None, "n", None, None, True, "default"), (None, None, "z", None, True, None, "v1"),
]


def pair_cases(tier):
    return itertools.product(range(len(PAIR_CASES)), range(len(PAIR_CASES)), ("dump", "dumps"))


def check_pair(case):
    i, j, via = case
    out = Out(cls="pair/" + via)

    def run(c):
        method, params, rpcid, version, resp, notify, cfgname = c
        if via == "dump":
            return J.dump(mkparams(params), method, rpcid, version, resp, notify, mkconfig(cfgname))
        return json.loads(J.dumps(mkparams(params), method, resp, None, rpcid, version, notify, mkconfig(cfgname)))

    try:
        alone = run(PAIR_CASES[j])
        run(PAIR_CASES[i])
        after = run(PAIR_CASES[j])
    except Exception as ex:
        return out.bad("C14/pair/raises-%s" % type(ex).__name__, "%r raised %r" % (case, ex))
    if not gen.same(gen.normalise(alone), gen.normalise(after)):
        out.bad("C14/message-depends-on-previous-call", "%s%r gives %r alone but %r right after %s%r" % (via, PAIR_CASES[j], alone, after, via, PAIR_CASES[i]))
    return out


def leg_pairs(part, tier, shard, nshards):
    drive(part, "pairs", pair_cases(tier), shard, nshards, check_pair)


# -- re-entrancy and concurrency: two overlapping message constructions must not influence each other ---------


class Reentrant(object):
    """A bean whose serialisation method builds another message while the outer one is being built."""

    def __init__(self, inner_case):
        self.inner_case = inner_case
        self.inner = None

    def _serialize(self):
        method, params, rpcid, version, resp, notify, cfgname = self.inner_case
        self.inner = J.dump(mkparams(params), method, rpcid, version, resp, notify, mkconfig(cfgname))
        return [], {"x": 1}


def reentrant_cases(tier):
    idx = [i for i, c in enumerate(PAIR_CASES) if c[6] != "nojsonclass"]
    return itertools.product(idx, range(len(PAIR_CASES)), ("request", "response"))


def check_reentrant(case):
    i, j, kind = case
    out = Out(cls="reentrant/" + kind)
    bean = Reentrant(PAIR_CASES[j])
    outer = PAIR_CASES[i]
    cfg = mkconfig(outer[6])
    try:
        inner_alone = J.dump(mkparams(PAIR_CASES[j][1]), *(PAIR_CASES[j][0],) + PAIR_CASES[j][2:6] + (mkconfig(PAIR_CASES[j][6]),))
        if kind == "request":
            got = J.dump([bean], "m", outer[2], outer[3], None, None, cfg)
        else:
            got = J.dump([bean], None, outer[2], outer[3], True, None, cfg)
    except Exception as ex:
        return out.bad("C14/reentrant/raises-%s" % type(ex).__name__, "%r raised %r" % (case, ex))
    v = float(outer[3] or cfg.version)
    if not gen.same(got.get("id"), outer[2]):
        out.bad("C14/overlapping-constructions/id-of-the-other-message", "%r: outer message carries id %r, its caller supplied %r (inner id %r)" % (case, got.get("id"), outer[2], PAIR_CASES[j][2]))
    if ("jsonrpc" in got) != (v >= 2):
        out.bad("C14/overlapping-constructions/version-of-the-other-message", "%r: outer message %r built for version %s" % (case, sorted(got), v))
    if not gen.same(gen.normalise(bean.inner), gen.normalise(inner_alone)):
        out.bad("C14/overlapping-constructions/inner-message-differs", "%r: inner message %r, alone %r" % (case, bean.inner, inner_alone))
    return out


def leg_reentrant(part, tier, shard, nshards):
    drive(part, "reentrant", reentrant_cases(tier), shard, nshards, check_reentrant)


class ConcDump(object):
    """E1 harness: two threads build messages concurrently (line granularity of jsonrpc.py)."""

    audited = (J.__file__,)

    def __init__(self, i, j):
        self.cases = (PAIR_CASES[i], PAIR_CASES[j])
        self.got = {}
        self.finished = False

    def worker(self, n):
        method, params, rpcid, version, resp, notify, cfgname = self.cases[n]
        try:
            self.got[n] = J.dump(mkparams(params), method, rpcid, version, resp, notify, mkconfig(cfgname))
        except Exception as ex:
            self.got[n] = ("raised", repr(ex))

    def main(self):
        from mc import sched
        ts = [sched.MThread(target=self.worker, args=(n,)) for n in (0, 1)]
        for t in ts:
            t.start()
        for t in ts:
            t.join()
        self.finished = True

    def final(self, s):
        v = []
        if not self.finished:
            return (s.status, [("C14/concurrent/does-not-terminate", "status %s" % s.status)])
        for n in (0, 1):
            method, params, rpcid, version, resp, notify, cfgname = self.cases[n]
            alone = J.dump(mkparams(params), method, rpcid, version, resp, notify, mkconfig(cfgname))
            if not gen.same(gen.normalise(self.got[n]), gen.normalise(alone)):
                v.append(("C14/overlapping-constructions/message-depends-on-concurrent-call",
                          "dump%r built concurrently with dump%r gives %r, alone %r" % (self.cases[n], self.cases[1 - n], self.got[n], alone)))
        return (repr(sorted(self.got.items())), v)


class ConcIds(object):
    """E1 harness: two (three) threads build requests without a caller-supplied id: the generated ids are unique per call."""

    audited = (J.__file__,)

    def __init__(self, n, version):
        self.n, self.version = n, version
        self.got = {}
        self.finished = False

    def worker(self, k):
        try:
            first = J.dump([k], "m", None, self.version)
            second = J.dump([k], "m", "" if k else None, self.version, None, None)
            self.got[k] = (first.get("id"), second.get("id"))
        except Exception as ex:
            self.got[k] = ("raised", repr(ex))

    def main(self):
        from mc import sched
        ts = [sched.MThread(target=self.worker, args=(k,)) for k in range(self.n)]
        for t in ts:
            t.start()
        for t in ts:
            t.join()
        self.finished = True

    def final(self, s):
        if not self.finished:
            return (s.status, [("C14/concurrent/does-not-terminate", "status %s" % s.status)])
        ids = [i for k in sorted(self.got) for i in self.got[k]]
        v = []
        if any(not isinstance(i, str) or not i or i.startswith("raised") for i in ids) or len(set(ids)) != len(ids):
            v.append(("C14/generated-id-not-unique-per-call", "%d threads building 2 id-less requests each obtained the ids %r" % (self.n, self.got)))
        return ("unique" if not v else "clash", v)


def make_conc_ids(n, version):
    from mc import sched
    sched.install()
    return lambda: ConcIds(n, version)


def make_conc(i, j):
    from mc import sched
    sched.install()
    return lambda: ConcDump(i, j)


def leg_concurrent(part, tier, shard, nshards):
    from mc import explore
    idx = [0, 1, 2, 4, 5, 6, 8]
    hs = []
    for i in idx:
        for j in idx:
            if i <= j:
                hs.append((("checks.c14", "make_conc", (i, j)), "conc-dump/%d-%d" % (i, j)))
    for version in (2.0, 1.0):
        hs.append((("checks.c14", "make_conc_ids", (2, version)), "conc-ids/2/%s" % version))
    if tier == "thorough":
        hs.append((("checks.c14", "make_conc_ids", (3, 2.0)), "conc-ids/3/2.0"))
    levels = [{"K": 0, "T": 0}, {"K": 1, "T": 0}, {"K": 2, "T": 0}]
    total = explore.explore_adaptive(hs, levels, 1500 if tier == "quick" else 40000)
    part.merge(total)


LEGS = {
    "reentrant": leg_reentrant,
    "concurrent": leg_concurrent,
    "pairs": leg_pairs,
    "envelope-dump": _leg_envelope("dump"),
    "envelope-dumps": _leg_envelope("dumps"),
    "ids": leg_ids,
    "fault": leg_fault,
    "roundtrip": leg_roundtrip,
}

META = {
    "engine": "E3-small-scope-enumeration+E1-schedule-explorer",
    "serial_legs": ("concurrent",),
    "technique": "bounded-exhaustive enumeration of dump/dumps argument combinations against a reference envelope model; overlapping constructions "
    "(re-entrant through a serialisation method, and two threads under the schedule explorer at line granularity)",
    "rule": "full cartesian product of the argument alphabets (method x params x rpcid x version x methodresponse x notify x config), "
    "each fed to the real dump and dumps; two (thorough three) threads each building two id-less requests under every schedule within the completed preemption level at line granularity of jsonrpc.py (generated ids unique per call); round trips of every JSON value of depth 1 (thorough 2) and of dictionaries with 1-3 non-string and mixed-kind keys (int, float, bool, None, str) as parameter, result and Fault data; a case is non-trivial when the reference model defines its outcome "
    "(request/notification/result/error envelope or mandatory TypeError/ValueError); distinct by encoded argument tuple",
    "bounds": {
        "quick": {"methods": len(METHODS), "params": len(PARAMS), "rpcids": len(RPCIDS), "versions": len(VERSIONS), "roundtrip_depth": 1},
        "thorough": {"methods": len(METHODS), "params": len(PARAMS), "rpcids": len(RPCIDS), "versions": len(VERSIONS),
                     "roundtrip_depth": "1 exhaustively, plus the first 150000 values of depth 2 in simplest-first order"},
    },
    "assumptions": [
        "stdlib json backend (no orjson/ujson/simplejson/cjson in the image)",
        "bool ids and bytes method names are outside the property's alphabet",
        "argument combinations the property is silent about are only required to return a dict/text or raise TypeError/ValueError",
    ],
}


def replay(case):
    if "schedule" in case:
        from mc import explore, sched
        sched.install()
        return explore.replay_schedule(case)
    leg = case["leg"]
    if leg in ("ids", "loads-empty"):
        out = check_ids((None, False))
        r = list(out.viols)
        if J.loads("") is not None:
            r.append(("C14/loads-empty", "loads('') is not None"))
        return r
    c = eval(case["case"], dict(gen.SUBTYPE_ENV, __builtins__={}), {})
    if leg.startswith("envelope-"):
        del GENERATED[:]
        return check_envelope(c, leg.split("-", 1)[1]).viols
    if leg == "fault":
        return check_fault(c).viols
    if leg == "pairs":
        return check_pair(c).viols
    if leg == "reentrant":
        return check_reentrant(c).viols
    if leg == "roundtrip":
        return check_roundtrip(c).viols
    raise ValueError(leg)
