"""C16 - future completion protocol: done/result/callback exactly once.

E1: the real FutureResult is driven by an executor thread, one or two
registrar threads and an observer thread under the controlled scheduler, at
source-line granularity of threadpool.py (opcode granularity in the thorough
tier), for every schedule within the preemption bound.
"""
import jsonrpclib.threadpool as tp

from mc import explore, sched
from mc.core import Part

TPFILE = tp.__file__


class Obj(object):
    def __init__(self, name):
        self.name = name

    def __repr__(self):
        return "<%s>" % self.name


class FalsyError(Exception):
    """An exception whose truth value is False (e.g. an aggregate error with no details)."""

    def __bool__(self):
        return False

    def __len__(self):
        return 0


class BadStr(Exception):
    """An exception that cannot be converted to text (its __str__ returns a non-string)."""

    def __str__(self):
        return 404


class FalsyObj(list):
    """A falsy return value with an identity."""


class Harness(object):
    audited = (TPFILE,)

    def __init__(self, program, outcome, cbkind, opcode):
        self.program, self.outcome, self.cbkind = program, outcome, cbkind
        self.opcode_funcs = (
            ("FutureResult.set_callback", "FutureResult.execute", "FutureResult._FutureResult__notify", "EventData.set",
             "EventData.raise_exception", "EventData.is_set") if opcode else ())
        self.R = Obj("R")
        self.X = ValueError("task-failed")
        if outcome == "raise-falsy":
            self.X = FalsyError()
            self.outcome = outcome = "raise"
        elif outcome == "return-falsy":
            self.R = FalsyObj()
            self.outcome = outcome = "return"
        elif outcome == "return-exception":
            self.R = KeyError("an exception object returned as a value")
            self.outcome = outcome = "return"
        self.calls = {}  # registration -> list of argument tuples
        self.log = []
        self.body_entered = 0
        self.body_exited = 0
        self.obs = {}
        self.viols = []
        self.fut = None
        self.exec_raised = "unset"
        self.exec_done = False

    # -- pieces ------------------------------------------------------------
    def method(self, *a, **k):
        self.body_entered += 1
        self.margs = (a, k)
        try:
            if self.outcome == "raise":
                raise self.X
            return self.R
        finally:
            self.body_exited += 1

    def make_cb(self, reg):
        self.calls[reg] = []
        if self.cbkind == "arity" and reg == "r1":
            def cb():  # wrong arity: TypeError when invoked
                pass
            # count invocation attempts through a wrapper object
            h = self

            class Wrong(object):
                def __call__(self_inner, *a):
                    h.calls[reg].append(a)
                    return cb(*a)
            return Wrong()

        def cb(result, exception, extra):
            self.calls[reg].append((result, exception, extra))
            if self.cbkind == "raise" and reg == "r1":
                raise ValueError("callback-failed")
            if self.cbkind == "badstr" and reg == "r1":
                raise BadStr()
            if self.cbkind == "reenter" and reg == "r1":
                # a callback that registers a follow-up callback on the same future
                self.fut.set_callback(self.make_cb("rn"), "extra-rn")
        if self.cbkind == "falsy":
            class FalsyCallable(list):  # a callable whose truth value is False
                def __call__(self_inner, *a):
                    return cb(*a)
            return FalsyCallable()
        return cb

    def executor(self):
        try:
            self.fut.execute(self.method, (1,), {"k": 2})
            self.exec_raised = None
        except Exception as ex:
            self.exec_raised = ex
        self.exec_done = True

    def registrar(self, reg):
        self.fut.set_callback(self.make_cb(reg), "extra-" + reg)

    def observer(self):
        f = self.fut
        o = []
        exited_before = self.body_exited
        d = f.done()
        o.append(("done", d, exited_before))
        if d and not self.body_exited:
            self.viols.append(("C16/done-true-before-task-finished", "done() returned True while the task body had not exited"))
        exited_before = self.exec_done  # execute() had returned before the call
        t0 = sched.S.now
        try:
            r = f.result(5)
            o.append(("result(5)", "ret", r is self.R))
            if not self.body_exited:
                self.viols.append(("C16/result-returned-before-task-finished", "result(5) returned %r before the task body exited" % (r,)))
            if self.outcome == "return" and r is not self.R:
                self.viols.append(("C16/result-not-the-returned-object", "result(5) returned %r" % (r,)))
            if self.outcome == "raise":
                self.viols.append(("C16/result-swallowed-exception", "result(5) returned %r although the task raised" % (r,)))
        except OSError as ex:
            o.append(("result(5)", "timeout", sched.S.now - t0))
            if exited_before:
                self.viols.append(("C16/result-timeout-after-completion", "result(5) raised OSError although the task had finished before the call"))
            if sched.S.now - t0 < 5:
                self.viols.append(("C16/result-timeout-early", "result(5) raised OSError after %.1f virtual seconds" % (sched.S.now - t0)))
        except (ValueError, FalsyError) as ex:
            o.append(("result(5)", "exc", ex is self.X))
            if ex is not self.X:
                self.viols.append(("C16/result-not-the-raised-exception", "result(5) raised %r" % (ex,)))
        # after completion everything must be immediate and consistent
        self.exec_thread.join()
        d2 = f.done()
        if not d2:
            self.viols.append(("C16/not-done-after-completion", "done() is False after execute() returned"))
        for i in range(2):
            t1 = sched.S.now
            try:
                r = f.result()
                if self.outcome == "raise" or r is not self.R:
                    self.viols.append(("C16/result-inconsistent-after-completion", "result() returned %r (outcome %s)" % (r, self.outcome)))
            except (ValueError, FalsyError) as ex:
                if self.outcome != "raise" or ex is not self.X:
                    self.viols.append(("C16/result-inconsistent-after-completion", "result() raised %r (outcome %s)" % (ex, self.outcome)))
            except OSError:
                self.viols.append(("C16/result-timeout-after-completion", "result() raised OSError after completion"))
            if sched.S.now != t1:
                self.viols.append(("C16/result-waited-after-completion", "result() waited although the task had finished"))
        self.obs["observer"] = o

    # -- programs -------------------------------------------------------------
    def main(self):
        T = sched.shim_threading.Thread
        self.fut = tp.FutureResult()
        p = self.program
        ex = T(target=self.executor, name="executor")
        self.exec_thread = ex
        if p == "reg||exec":
            r1 = T(target=self.registrar, args=("r1",), name="registrar1")
            r1.start(); ex.start(); r1.join(); ex.join()
        elif p == "reg||reg||exec":
            r1 = T(target=self.registrar, args=("r1",), name="registrar1")
            r2 = T(target=self.registrar, args=("r2",), name="registrar2")
            r1.start(); r2.start(); ex.start(); r1.join(); r2.join(); ex.join()
        elif p == "reg;exec":
            self.registrar("r1"); ex.start(); ex.join()
        elif p == "exec;reg":
            ex.start(); ex.join(); self.registrar("r1")
        elif p == "reg;reg;exec":
            self.registrar("r0"); self.registrar("r1"); ex.start(); ex.join()
        elif p == "exec;reg;reg":
            ex.start(); ex.join(); self.registrar("r1"); self.registrar("r2")
        elif p == "obs||exec":
            ob = T(target=self.observer, name="observer")
            ex.start(); ob.start(); ob.join(); ex.join()
        elif p == "obs||reg||exec":
            ob = T(target=self.observer, name="observer")
            r1 = T(target=self.registrar, args=("r1",), name="registrar1")
            ex.start(); ob.start(); r1.start(); ob.join(); r1.join(); ex.join()
        elif p == "pool":
            self.pool_program()
        else:
            raise ValueError(p)
        self.finished = True

    def pool_program(self):
        pool = tp.ThreadPool(1, 1)
        pool.start()
        self.second_ran = 0

        def second():
            self.second_ran += 1
            return "second"

        f1 = pool.enqueue(self.method, 1, k=2)
        self.fut = f1
        f1.set_callback(self.make_cb("r1"), "extra-r1")
        f2 = pool.enqueue(second)
        try:
            r2 = f2.result(30)
        except OSError:
            # an early (chosen) timer firing only models a slow schedule: not a verdict
            r2 = "TIMEOUT" if sched.S.cur.fired_forced else "slow-schedule"
        self.obs["second"] = r2
        if r2 not in ("second", "slow-schedule"):
            self.viols.append(("C16/callback-exception-stops-worker", "task queued behind a task with a failing callback did not run: %r" % (r2,)))
        try:
            r = f1.result(1)
            if self.outcome == "raise" or r is not self.R:
                self.viols.append(("C16/result-changed-by-callback", "result() returned %r" % (r,)))
        except (ValueError, FalsyError) as ex:
            if self.outcome != "raise" or ex is not self.X:
                self.viols.append(("C16/result-changed-by-callback", "result() raised %r" % (ex,)))
        except OSError:
            if sched.S.cur.fired_forced or r2 == "second":
                self.viols.append(("C16/result-timeout-after-completion", "result(1) timed out after the task finished"))
        self.exec_raised = self.X if self.outcome == "raise" else None
        pool.stop()

    def abstract(self):
        return (self.body_entered, self.body_exited, tuple((k, len(v)) for k, v in sorted(self.calls.items())))

    # -- verdict -------------------------------------------------------------------
    def final(self, s):
        v = list(self.viols)
        p = self.program
        if s.status != "ok" or not getattr(self, "finished", False):
            v.append(("C16/no-termination", "execution ended with status %s; threads: %r" % (s.status, [(t.name, t.state, t.why) for t in s.threads])))
            return (s.status, v)
        for t in s.threads:
            if t.exc is not None:
                v.append(("C16/thread-died", "thread %s died with %r" % (t.name, t.exc)))
        if self.body_entered != 1:
            v.append(("C16/task-executions", "task body entered %d times" % self.body_entered))
        # executor: re-raises exactly the task's exception (callback failures are contained)
        if self.outcome == "raise" and self.exec_raised is not self.X:
            v.append(("C16/execute-did-not-reraise-task-exception", "execute() raised/returned %r" % (self.exec_raised,)))
        if self.outcome == "return" and self.exec_raised is not None:
            v.append(("C16/callback-exception-escaped-execute", "execute() raised %r although the task returned" % (self.exec_raised,)))
        # the stored outcome, read through the public API while everything is parked
        try:
            r = self.fut.result(0)
            if self.outcome == "raise":
                v.append(("C16/result-swallowed-exception", "result() returned %r although the task raised %r" % (r, self.X)))
            elif r is not self.R:
                v.append(("C16/result-not-the-returned-object", "result() returned %r" % (r,)))
        except OSError:
            v.append(("C16/not-done-after-completion", "result(0) timed out after execute() completed"))
        except Exception as ex:
            if self.outcome != "raise" or ex is not self.X:
                v.append(("C16/result-not-the-raised-exception", "result() raised %r (outcome %s)" % (ex, self.outcome)))
        try:
            if not self.fut.done():
                v.append(("C16/not-done-after-completion", "done() is False after execute() completed"))
        except Exception as ex:
            v.append(("C16/done-raises", "done() raised %r" % (ex,)))
        want_args = (self.R, None) if self.outcome == "return" else (None, self.X)
        exact_one = {
            "reg||exec": ["r1"], "reg;exec": ["r1"], "exec;reg": ["r1"], "reg;reg;exec": ["r1"], "exec;reg;reg": ["r1", "r2"],
            "obs||reg||exec": ["r1"], "pool": ["r1"], "reg||reg||exec": [], "obs||exec": [],
        }[p]
        for reg, calls in sorted(self.calls.items()):
            if len(calls) > 1:
                v.append(("C16/callback-invoked-twice", "callback of registration %s invoked %d times: %r" % (reg, len(calls), calls)))
            for c in calls:
                if len(c) != 3 or c[0] is not want_args[0] or c[1] is not want_args[1] or c[2] != "extra-" + reg:
                    v.append(("C16/callback-arguments", "callback %s invoked with %r, expected (%r, %r, %r)" % (reg, c, want_args[0], want_args[1], "extra-" + reg)))
        if self.cbkind == "reenter" and len(self.calls.get("r1", ())) == 1:
            exact_one = exact_one + ["rn"]
        for reg in exact_one:
            if len(self.calls.get(reg, ())) == 0:
                v.append(("C16/callback-never-invoked", "callback of registration %s was never invoked" % reg))
        if p == "reg;reg;exec" and self.calls.get("r0"):
            v.append(("C16/superseded-callback-invoked", "callback replaced before completion was invoked: %r" % (self.calls["r0"],)))
        if p == "reg||reg||exec" and sum(len(c) for c in self.calls.values()) == 0:
            v.append(("C16/callback-never-invoked", "no callback invoked although two were registered"))
        obs = (self.body_entered, tuple((k, len(c)) for k, c in sorted(self.calls.items())), repr(self.obs))
        return (obs, v)


def make(program, outcome, cbkind, opcode=False):
    sched.install()
    return lambda: Harness(program, outcome, cbkind, opcode)


LEVELS = [{"K": 0, "T": 0}, {"K": 1, "T": 0}, {"K": 1, "T": 1}, {"K": 2, "T": 1}, {"K": 3, "T": 1}, {"K": 4, "T": 1}, {"K": 5, "T": 2}]
OUTCOMES = ("return", "raise", "return-falsy", "raise-falsy", "return-exception")


def pool_depth(tier, p, outcome, cb):
    """The whole-pool program is the largest harness (10^4 executions at K=1,T=1): in the quick tier only two variants go that deep."""
    if tier == "quick" and p == "pool" and not (cb in ("record", "raise") and outcome in ("return", "raise")):
        return (1,)
    return ()


def harnesses(tier):
    out = []
    progs_conc = ["reg||exec", "reg||reg||exec", "obs||exec", "obs||reg||exec"]
    progs_seq = ["reg;exec", "exec;reg", "reg;reg;exec", "exec;reg;reg", "pool"]
    for outcome in OUTCOMES:
        for cb in ("record", "raise", "arity"):
            if (outcome.endswith("falsy") or outcome == "return-exception") and cb != "record":
                continue
            for p in progs_seq + progs_conc:
                if p == "obs||exec" and cb != "record":
                    continue
                out.append((("checks.c16", "make", (p, outcome, cb)), "%s/%s/%s" % (p, outcome, cb)) + pool_depth(tier, p, outcome, cb))
    # callbacks of less common kinds: raising an exception that has no text form, falsy callable objects, callbacks that register a follow-up
    for cb in ("badstr", "falsy", "reenter"):
        for outcome in ("return", "raise"):
            for p in (progs_seq + progs_conc if tier == "thorough" else ["reg;exec", "exec;reg", "exec;reg;reg", "pool", "reg||exec"]):
                if p == "obs||exec":
                    continue
                out.append((("checks.c16", "make", (p, outcome, cb)), "%s/%s/%s" % (p, outcome, cb)) + pool_depth(tier, p, outcome, cb))
    if tier == "thorough":
        for outcome in ("return", "raise"):
            for p in ("reg||exec", "obs||exec"):
                out.append((("checks.c16", "make", (p, outcome, "record", True)), "%s/%s/opcode" % (p, outcome)))
    return out


BUDGET = {"quick": 10000, "thorough": 60000}
GLOBAL = {"quick": 400000, "thorough": 3000000}


def leg_schedules(part, tier, shard, nshards):
    # runs in this process: the explorer itself fans out over all cores
    hs = harnesses(tier)
    total = explore.explore_adaptive(hs, LEVELS, BUDGET[tier], global_budget=GLOBAL[tier])
    part.merge(total)
    part.counters["harnesses"] = len(hs)


LEGS = {"schedules": leg_schedules}

META = {
    "engine": "E1-schedule-explorer",
    "serial_legs": ("schedules",),
    "technique": "stateless model checking of the real FutureResult under a controlled scheduler: exhaustive enumeration of thread schedules "
    "with iterative preemption bounding at source-line (thorough: opcode) granularity, virtual clock for result(timeout)",
    "rule": "harness = program (registrar/executor/observer threads, sequential baselines, one-worker pool) x task outcome {return, raise, falsy return value, falsy exception object} x "
    "callback kind {records, raises, wrong arity}; every schedule up to the deepest (K,T) level of the ladder the harness completes "
    "within the tier's budget; an execution is non-trivial when it has a choice point; "
    "distinct by (harness, choice sequence)",
    "bounds": {"quick": {"levels": "iterative (K,T) ladder (0,0) (1,0) (1,1) (2,1) (3,1) (4,1) (5,2) per harness while the predicted next level is <= 10000 executions; deepest completed level per harness in notes.completed_bounds", "granularity": "source line of threadpool.py"},
               "thorough": {"levels": "same ladder, predicted <= 60000 executions per harness, 6 million in total", "granularity": "source line; opcode for set_callback/execute/__notify/EventData in four extra harnesses"}},
    "assumptions": [
        "thread switches happen only at synchronisation operations and at line (opcode) boundaries of jsonrpclib/threadpool.py",
        "threading.Event/Lock/Condition and queue are the shim implementations (stdlib queue.py source over shim threading)",
    ],
}


def replay(case):
    sched.install()
    return explore.replay_schedule(case)
