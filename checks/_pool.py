"""Shared E1 harness for the thread-pool properties C09, C10, C11 (and the pool part of C04).

A *program* is a list of operations executed by a controller thread (managed
thread 0) against one real ThreadPool, optionally with a second 'submitter'
thread running its own operation list.  Monitors observe task bodies, the
queue's get() calls and the life-cycle calls; each violation is tagged with the
property whose clause it breaks.
"""
import itertools
import types

import jsonrpclib.threadpool as tp

from mc import sched

TPFILE = tp.__file__
BIG = 1000.0  # virtual seconds: longer than every library timeout

_Q = None
_NS = None


def instrumented_queue():
    """queue namespace whose Queue.get reports to the harness of the running execution."""
    global _Q, _NS
    if _NS is None:
        _Q = sched.shim_queue()

        class IQueue(_Q.Queue):
            hook = None

            def get(self, block=True, timeout=None):
                h = IQueue.hook
                if h is not None:
                    h("get_enter")
                try:
                    return _Q.Queue.get(self, block, timeout)
                finally:
                    if h is not None:
                        h("get_exit")

        _NS = types.SimpleNamespace(Queue=IQueue, Empty=_Q.Empty, Full=_Q.Full, LifoQueue=_Q.LifoQueue,
                                    PriorityQueue=_Q.PriorityQueue)
    return _NS


class FalsyError(RuntimeError):
    def __bool__(self):
        return False

    def __len__(self):
        return 0


class FalsyObj(list):
    pass


class UnrenderableError(RuntimeError):
    """An exception without a text form (its __str__ returns a non-string): rendering it for a log line raises TypeError."""

    def __str__(self):
        return {"code": 404}


class Task(object):
    def __init__(self, tid, kind, owner):
        # "ret.p" / "raise.p": the task is a functools.partial object; "ret.i" / "raise.i": an instance with __call__
        # (callables without __name__); the outcome kinds stay 'ret' / 'raise'
        kind, _, shape = kind.partition(".")
        self.shape = shape
        self.tid, self.kind, self.owner = tid, kind, owner
        self.execs = 0
        self.exited = False
        self.accepted = None
        self.future = None
        self.ret = ("RET", tid)
        self.ret_obj = object()
        self.exc = RuntimeError("task %s failed" % tid)
        if kind == "raise0":
            self.exc = FalsyError()
            self.kind = "raise"
        elif kind == "ret0":
            self.ret_obj = FalsyObj()
            self.kind = "ret"
        elif kind == "raiseb":
            self.exc = UnrenderableError()
            self.kind = "raise"
        elif kind == "retx":
            self.ret_obj = RuntimeError("an exception object that the task returns (it does not raise it)")
            self.kind = "ret"
        self.args_seen = None
        self.enq_call = self.enq_ret = None
        self.enter_step = self.exit_step = None
        self.gate_open_step = None
        self.chain = None


class PoolHarness(object):
    def __init__(self, size, qsize, program, sub, gran):
        self.max, self.min = size
        self.qsize = qsize
        self.program = [tuple(op) for op in program]
        self.sub = [tuple(op) for op in (sub or [])]
        self.audited = (TPFILE,) if gran == "line" else ()
        self.tasks = {}
        self.order = []
        self.gates = {}
        self.ev = []
        self.v = []
        self.inside = 0
        self.max_inside = 0
        self.phase = "new"
        self.life = []  # (step, what)
        self.joins = []
        self.enter_order = []
        self.finished = False
        self.obs = []
        self.counter = {"c": 0, "s": 0}
        self.gets = {}  # thread index -> [enter steps], [exit steps]
        self.blocked_in = None
        self.sub_thread = None
        self.pool = None

    # -- plumbing -------------------------------------------------------------
    def bad(self, prop, sig, detail):
        self.v.append((prop, sig, detail))

    def on_get(self, what):
        s = sched.S
        if s is None or s.postmortem:
            return
        t = s.cur
        self.gets.setdefault(t.index, []).append((s.nsteps, what))

    def make_body(self, task):
        h = self

        def body(*a, **k):
            s = sched.S
            task.execs += 1
            task.args_seen = (a, k)
            task.enter_step = s.nsteps
            h.enter_order.append(task.tid)
            h.inside += 1
            h.max_inside = max(h.max_inside, h.inside)
            if task.execs > 1:
                h.bad("C09", "C09/task-executed-twice", "task %s entered its body %d times" % (task.tid, task.execs))
            if h.phase == "stopped":
                h.bad("C09", "C09/task-started-after-stop-returned", "task %s started although stop() had returned and no start() followed" % task.tid)
                h.bad("C11", "C11/task-started-after-stop-returned", "task %s started although stop() had returned and no start() followed" % task.tid)
            if h.inside > h.max:
                h.bad("C10", "C10/more-than-max-tasks-executing", "%d task bodies executing with max_threads=%d" % (h.inside, h.max))
            try:
                if task.kind == "gated":
                    h.gates[task.tid].wait()
                elif task.kind == "chain":
                    idx, n, ids = task.chain
                    if idx > 0:
                        h.gates[ids[idx - 1]].set()
                        h.tasks[ids[idx - 1]].gate_open_step = s.nsteps
                    if idx < n - 1:
                        h.gates[task.tid].wait()
                elif task.kind == "raise":
                    raise task.exc
                elif task.kind == "exit":
                    raise SystemExit("task %s exits its thread" % task.tid)
                return task.ret_obj
            finally:
                h.inside -= 1
                task.exited = True
                task.exit_step = sched.S.nsteps

        body.__name__ = "task_" + task.tid
        if task.shape == "p":
            import functools
            return functools.partial(body)
        if task.shape == "i":
            class CallableTask(object):
                def __call__(self, *a, **k):
                    return body(*a, **k)
            return CallableTask()
        return body

    # -- operations ----------------------------------------------------------------
    def do(self, op, who):
        s = sched.S
        name = op[0]
        pool = self.pool
        if name == "failstart":
            # environment fault: the op[1]-th creation of a pool worker thread fails ("can't start new thread")
            self.thread_start_fault = ("jsonrpclib.threadpool", set(op[1:]))
            return
        if name == "start":
            self.life.append((s.nsteps, "start_call"))
            if self.phase in ("new", "stopped"):
                self.phase = "starting"
            nthreads = len(s.threads)
            self.blocked_in = "start"
            pool.start()
            self.blocked_in = None
            self.life.append((s.nsteps, "start_ret", len(s.threads) - nthreads))
            self.phase = "running"
        elif name == "stop":
            self.life.append((s.nsteps, "stop_call"))
            if self.phase == "running":
                self.phase = "stopping"
            self.blocked_in = "stop"
            pool.stop()
            self.blocked_in = None
            self.life.append((s.nsteps, "stop_ret"))
            self.phase = "stopped"
        elif name in ("enq", "chain"):
            n = self.counter[who]
            self.counter[who] += 1
            tid = "%s%d" % (who, n)
            kind = op[1] if name == "enq" else "chain"
            task = Task(tid, kind, who)
            if name == "chain":
                idx, total = op[1], op[2]
                ids = ["%s%d" % (who, n - idx + j) for j in range(total)]
                task.chain = (idx, total, ids)
            self.tasks[tid] = task
            self.order.append(tid)
            if kind in ("gated", "chain"):
                self.gates[tid] = sched.Event()
            task.enq_call = s.nsteps
            try:
                task.future = pool.enqueue(self.make_body(task), tid, "x", k=tid)
                task.accepted = True
            except tp.queue.Full:
                task.accepted = False
            task.enq_ret = s.nsteps
            task.phase_at_enq = self.phase
        elif name == "open":
            tid = op[1]
            if tid in self.gates:
                self.gates[tid].set()
                self.tasks[tid].gate_open_step = s.nsteps
        elif name == "result":
            tid, timeout = op[1], op[2]
            task = self.tasks.get(tid)
            if task is None or not task.accepted:
                return
            t0 = s.now
            self.blocked_in = "result(%s)" % tid
            try:
                r = task.future.result(timeout)
                out = ("ret", r is task.ret_obj)
                if task.kind == "raise" or r is not task.ret_obj:
                    self.bad("C09", "C09/result-not-the-returned-object", "result() of task %s returned %r" % (tid, r))
                if not task.exited:
                    self.bad("C09", "C09/result-before-task-finished", "result() of task %s returned before its body exited" % tid)
            except OSError:
                out = ("timeout",)
                forced = s.cur.fired_forced
                if forced and self.must_have_run_by_now(task):
                    prop = "C10" if task.kind == "chain" else "C09"
                    self.bad(prop, "%s/accepted-task-not-executed-although-nothing-else-can-happen" % prop,
                             "result(%s, %s) timed out with every thread idle: the task was accepted on a running pool (execs=%d)" % (tid, timeout, task.execs))
            except RuntimeError as ex:
                out = ("exc", ex is task.exc)
                if ex is not task.exc:
                    self.bad("C09", "C09/result-not-the-raised-exception", "result() of task %s raised %r" % (tid, ex))
            self.blocked_in = None
            self.obs.append(("result", tid) + out)
        elif name == "join":
            timeout = op[1]
            call = s.nsteps
            before = [t for t in self.tasks.values() if t.accepted and t.enq_ret is not None and t.enq_ret <= call]
            stops_before = sum(1 for e in self.life if e[1] == "stop_call")
            phase = self.phase
            self.blocked_in = "join"
            r = pool.join(timeout)
            self.blocked_in = None
            stops_after = sum(1 for e in self.life if e[1] == "stop_call")
            self.obs.append(("join", timeout, r))
            self.joins.append((call, s.nsteps, r))
            if r and phase == "running" and stops_before == stops_after:
                unfinished = [t.tid for t in before if not t.exited and self.not_cleared(t)]
                if unfinished:
                    self.bad("C11", "C11/join-true-while-task-unfinished",
                             "join(%s) returned True while task(s) %s enqueued before the call had not finished" % (timeout, unfinished))
            if not r and timeout is None:
                self.bad("C11", "C11/untimed-join-returned-false", "join() returned %r" % (r,))
            if r and timeout is not None and phase == "running" and stops_before == stops_after:
                # a timed join that returned True although a gate nobody can have opened was still closed
                stuck = [t.tid for t in before if t.kind == "gated" and t.gate_open_step is None and not t.exited]
                if stuck:
                    self.bad("C11", "C11/timed-join-true-while-task-unfinished", "join(%s) returned True while gated task(s) %s had not been released" % (timeout, stuck))
        elif name == "sleep":
            s.sleep(op[1])
        elif name == "settle":
            # wait until every other thread is finished or blocked (e.g. a worker taken down by SystemExit has fully gone)
            me = s.cur
            s.point("settle")
            s.block(lambda: all(t is me or not s._enabled(t) for t in s.threads), None, "settle")
        elif name == "spawn":
            self.sub_thread = sched.MThread(target=self.run_sub, name="submitter")
            self.sub_thread.start()
        elif name == "joinsub":
            if self.sub_thread is not None:
                self.blocked_in = "joinsub"
                self.sub_thread.join()
                self.blocked_in = None
        else:
            raise ValueError(op)

    def not_cleared(self, task):
        """False when a stop() that overlaps or follows the task's enqueue may legitimately have discarded it."""
        life = self.life
        for i, e in enumerate(life):
            if e[1] != "stop_call":
                continue
            ret = [x[0] for x in life[i + 1:] if x[1] == "stop_ret"]
            if not ret or ret[0] >= task.enq_call:
                return False
        return True

    def must_have_run_by_now(self, task):
        if not task.accepted or self.phase != "running" or not self.not_cleared(task):
            return False
        if task.kind == "gated" and task.gate_open_step is None:
            return False
        if task.kind == "chain":
            idx, n, ids = task.chain
            return all(i in self.tasks and self.tasks[i].accepted for i in ids) and n <= self.max
        # every gated/chain task enqueued earlier must be able to finish, otherwise workers may all be legitimately busy
        for t in self.tasks.values():
            if t.kind == "gated" and t.accepted and t.gate_open_step is None and not t.exited:
                return False
            if t.kind == "chain" and not t.exited:
                idx, n, ids = t.chain
                if n > self.max or not all(i in self.tasks for i in ids):
                    return False
        return True

    def run_sub(self):
        for op in self.sub:
            self.do(op, "s")

    def main(self):
        ns = instrumented_queue()
        ns.Queue.hook = self.on_get
        tp.queue = ns
        if isinstance(self.qsize, tuple):
            # (queue size, queue timeout): the fourth constructor argument (None = workers poll without a timeout)
            self.pool = tp.ThreadPool(self.max, self.min, queue_size=self.qsize[0], timeout=self.qsize[1])
        else:
            self.pool = tp.ThreadPool(self.max, self.min, queue_size=self.qsize)
        for op in self.program:
            self.do(op, "c")
        # epilogue: open every gate so that nothing stays blocked because of the program itself
        for tid, g in self.gates.items():
            if not g._flag:
                g.set()
                self.tasks[tid].gate_open_step = sched.S.nsteps
        if self.sub_thread is not None:
            self.blocked_in = "joinsub"
            self.sub_thread.join()
            self.blocked_in = None
        if self.phase == "running":
            self.do(("join", BIG), "c")
        elif self.phase == "stopped" and any(t.state == "run" for t in sched.S.threads[1:]):
            # give workers that were not joined by stop() the time to notice the stop flag by themselves
            sched.S.sleep(200)
        self.finished = True

    def abstract(self):
        return (self.phase, self.inside, tuple((t.tid, t.execs, t.exited) for t in self.tasks.values()), len(self.life))

    # -- verdict -------------------------------------------------------------------------
    def final(self, s):
        v = self.v
        end = s.nsteps
        if not self.finished:
            where = self.blocked_in or "?"
            threads = [(t.name, t.state, t.why) for t in s.threads]
            if where == "stop":
                self.bad("C11", "C11/stop-does-not-return", "stop() never returned (status %s); threads %r" % (s.status, threads))
            elif where == "join":
                self.bad("C11", "C11/join-does-not-return", "join() never returned (status %s); threads %r" % (s.status, threads))
            elif where == "start":
                self.bad("C11", "C11/start-does-not-return", "start() never returned (status %s); threads %r" % (s.status, threads))
            elif where.startswith("result"):
                tid = where[7:-1]
                prop = "C10" if self.tasks[tid].kind == "chain" else "C09"
                self.bad(prop, "%s/task-never-completes" % prop, "untimed result(%s) never returned (status %s); threads %r" % (tid, s.status, threads))
            else:
                self.bad("C11", "C11/program-does-not-terminate", "controller stuck in %s (status %s); threads %r" % (where, s.status, threads))
                self.bad("C09", "C09/program-does-not-terminate", "controller stuck in %s (status %s); threads %r" % (where, s.status, threads))
            return (("stuck", where, s.status), self.tag())
        for t in s.threads:
            if t.exc is not None and not isinstance(t.exc, SystemExit):
                for p in ("C09", "C11"):
                    self.bad(p, "%s/thread-died-%s" % (p, type(t.exc).__name__), "thread %s died with %r" % (t.name, t.exc))
        running_at_end = self.phase == "running"
        for tid in self.order:
            t = self.tasks[tid]
            if not t.accepted:
                if t.execs:
                    self.bad("C09", "C09/rejected-task-executed", "enqueue of %s raised Full, yet the task ran" % tid)
                continue
            if t.args_seen is not None and t.args_seen != ((tid, "x"), {"k": tid}):
                self.bad("C09", "C09/task-arguments-changed", "task %s received %r" % (tid, t.args_seen))
            must = running_at_end and self.not_cleared(t)
            if must and t.execs != 1:
                prop = "C10" if t.kind == "chain" else "C09"
                self.bad(prop, "%s/accepted-task-not-executed" % prop,
                         "task %s (accepted in phase %s) executed %d times although the pool is running and was not stopped after its enqueue"
                         % (tid, getattr(t, "phase_at_enq", "?"), t.execs))
            if t.kind == "exit":
                continue  # a task that raises SystemExit: only termination of join()/stop() is judged (C11)
            if t.execs and t.exited:
                try:
                    done = t.future.done()
                    if not done:
                        self.bad("C09", "C09/future-not-done-after-task-finished", "future of %s is not done although its body exited" % tid)
                    else:
                        try:
                            r = t.future.result(0)
                            if t.kind == "raise" or r is not t.ret_obj:
                                self.bad("C09", "C09/result-not-the-returned-object", "future of %s yields %r" % (tid, r))
                        except RuntimeError as ex:
                            if ex is not t.exc:
                                self.bad("C09", "C09/result-not-the-raised-exception", "future of %s raises %r" % (tid, ex))
                        except OSError:
                            self.bad("C09", "C09/future-not-done-after-task-finished", "result(0) of %s timed out" % tid)
                except sched.Abort:
                    raise
            elif not t.execs:
                try:
                    if t.future.done():
                        self.bad("C09", "C09/future-done-without-execution", "future of %s is done although the task never ran" % tid)
                except sched.Abort:
                    raise
        # FIFO with one worker (per submitting thread)
        if self.max == 1:
            for who in ("c", "s"):
                mine = [tid for tid in self.order if self.tasks[tid].owner == who]
                ran = [tid for tid in self.enter_order if tid in mine]
                want = [tid for tid in mine if tid in ran]
                if ran != want:
                    self.bad("C09", "C09/single-worker-order", "with max_threads=1 tasks started in order %r, submitted in order %r" % (ran, want))
        # workers serving the queue
        workers = [t for t in s.threads[1:] if t is not self.sub_thread]
        intervals = []
        for w in workers:
            g = self.gets.get(w.index, [])
            if not g:
                continue
            last = g[-1]
            stop_at = end + 1 if last[1] == "get_enter" else last[0]
            intervals.append((w.created_at, stop_at, w.name))
        # lower bound: a worker counts for its whole life (whether a live worker has already decided to retire
        # is not observable, so this side is deliberately lenient)
        alive_iv = [(w.created_at, getattr(w, "finished_at", None) or end + 1, w.name) for w in workers]
        points = sorted({a for a, b, n in intervals} | {b for a, b, n in intervals} | {e[0] for e in self.life})
        worst = 0
        for p in points:
            c = sum(1 for a, b, n in intervals if a <= p < b)
            worst = max(worst, c)
        if worst > self.max:
            self.bad("C10", "C10/more-than-max-workers-serving", "%d workers were serving the queue at once with max_threads=%d: %r" % (worst, self.max, intervals))
        # at least min workers between start() return and the next stop() call
        life = self.life
        for i, e in enumerate(life):
            if getattr(self, "thread_start_fault", None) is not None:
                break  # the minimum presumes that worker threads can be created: not judged when a creation is made to fail
            if e[1] == "start_ret":
                nxt = [x[0] for x in life[i + 1:] if x[1] == "stop_call"]
                hi = nxt[0] if nxt else end
                lo = e[0]
                cuts = sorted({lo} | {b for a, b, n in alive_iv if lo < b < hi})
                for p in cuts:
                    c = sum(1 for a, b, n in alive_iv if a <= p < b)
                    if c < self.min:
                        self.bad("C10", "C10/fewer-than-min-workers-serving",
                                 "only %d worker(s) serve the queue at step %d (between start() return at %d and stop() at %d) with min_threads=%d: %r"
                                 % (c, p, lo, hi, self.min, alive_iv))
                        break
        # idempotent start: a second start() on a running pool creates no worker
        for i, e in enumerate(life):
            if e[1] == "start_ret" and i >= 2 and life[i - 2][1] == "start_ret" and e[2] != 0:
                self.bad("C11", "C11/redundant-start-created-workers", "start() on a running pool created %d thread(s)" % e[2])
        if self.phase == "stopped":
            alive = [t.name for t in workers if t.state == "run"]
            if alive:
                self.bad("C11", "C11/worker-alive-after-stop-returned", "worker threads %r still alive at the end although the pool is stopped" % alive)
        obs = (tuple((tid, self.tasks[tid].execs, self.tasks[tid].exited) for tid in self.order), tuple(self.obs),
               tuple(self.enter_order), self.phase)
        return (obs, self.tag())

    def tag(self):
        return [(p + "|" + sig, detail) for p, sig, detail in self.v]


def make(size, qsize, program, sub, gran):
    sched.install()
    return lambda: PoolHarness(size, qsize, program, sub, gran)


# ---------------------------------------------------------------------------
# programs

CURATED = {
    # name: (program, submitter program)
    "P1-prequeued-then-start": ([("enq", "ret"), ("start",), ("result", "c0", BIG)], None),
    "P2-two-submitters": ([("start",), ("spawn",), ("enq", "ret"), ("joinsub",), ("result", "c0", BIG), ("result", "s0", BIG)], [("enq", "ret")]),
    "P3-idle-timeout-then-enqueue": ([("start",), ("enq", "ret"), ("result", "c0", BIG), ("sleep", 61), ("enq", "ret"), ("result", "c1", BIG)], None),
    "P4-gated-then-plain": ([("start",), ("enq", "gated"), ("enq", "ret"), ("open", "c0"), ("result", "c0", BIG), ("result", "c1", BIG)], None),
    "P5-between-stop-and-restart": ([("start",), ("enq", "ret"), ("result", "c0", BIG), ("stop",), ("enq", "ret"), ("start",), ("result", "c1", BIG)], None),
    "P6-stop-races-enqueue": ([("start",), ("spawn",), ("stop",), ("joinsub",)], [("enq", "gated"), ("open", "s0")]),
    "P7-more-prequeued-than-workers": ([("enq", "ret"), ("enq", "ret"), ("enq", "ret"), ("start",), ("join", None)], None),
    "P8-failing-task": ([("start",), ("enq", "raise"), ("enq", "ret"), ("result", "c0", BIG), ("result", "c1", BIG)], None),
    "P9-start-races-submitter": ([("spawn",), ("start",), ("joinsub",), ("result", "s0", BIG)], [("enq", "ret")]),
    "P10-stop-enq-start": ([("start",), ("spawn",), ("stop",), ("start",), ("joinsub",), ("join", BIG)], [("enq", "ret")]),
    "P11-saturate": ([("start",), ("enq", "gated"), ("enq", "gated"), ("enq", "ret"), ("open", "c0"), ("open", "c1"), ("result", "c2", BIG)], None),
    "P12-bounded-queue": ([("start",), ("enq", "gated"), ("enq", "ret"), ("enq", "ret"), ("open", "c0"), ("join", BIG)], None),
    "P13-untimed-join-after-stop-start": ([("start",), ("enq", "ret"), ("stop",), ("start",), ("enq", "ret"), ("join", None), ("stop",)], None),
    "P14-join-while-gated-runs": ([("start",), ("enq", "gated"), ("spawn",), ("join", None), ("joinsub",)], [("open", "c0")]),
    "P15-double-start-stop": ([("start",), ("start",), ("enq", "ret"), ("join", None), ("stop",), ("stop",)], None),
    "P16-chain-after-start": ([("start",), ("chain", 0, 2), ("chain", 1, 2), ("result", "c0", BIG), ("result", "c1", BIG)], None),
    "P17-chain-before-start": ([("chain", 0, 2), ("chain", 1, 2), ("start",), ("result", "c0", BIG)], None),
    "P18-chain-after-restart": ([("start",), ("enq", "ret"), ("join", BIG), ("stop",), ("start",), ("chain", 0, 2), ("chain", 1, 2), ("result", "c0", BIG)], None),
    "P19-chain-with-second-submitter": ([("start",), ("spawn",), ("chain", 0, 2), ("chain", 1, 2), ("joinsub",), ("result", "c0", BIG)], [("enq", "ret"), ("enq", "ret")]),
    "P20-timed-join-with-gated": ([("start",), ("enq", "gated"), ("join", 5), ("open", "c0"), ("join", BIG)], None),
    "P36-stop-with-two-busy-workers": ([("start",), ("enq", "gated"), ("enq", "gated"), ("spawn",), ("stop",), ("joinsub",), ("start",), ("stop",), ("enq", "ret"),
                                        ("sleep", 200), ("start",), ("result", "c2", BIG), ("stop",)], [("open", "c0"), ("open", "c1")]),
    "P37-stop-with-two-busy-then-work": ([("start",), ("enq", "gated"), ("enq", "gated"), ("spawn",), ("stop",), ("joinsub",), ("start",), ("enq", "ret"), ("enq", "raise"),
                                          ("join", None), ("stop",), ("sleep", 200)], [("open", "c1"), ("open", "c0")]),
    "P34-join-zero-timeout": ([("start",), ("enq", "gated"), ("join", 0), ("join", 0.0), ("open", "c0"), ("join", BIG), ("join", 0)], None),
    "P21-stop-with-join-racing": ([("start",), ("enq", "ret"), ("spawn",), ("stop",), ("joinsub",)], [("join", BIG)]),
    "P22-backlog-then-chain": ([("enq", "ret"), ("enq", "ret"), ("enq", "ret"), ("start",), ("join", BIG), ("sleep", 61), ("chain", 0, 2), ("chain", 1, 2), ("result", "c3", BIG)], None),
    "P23-chain3": ([("start",), ("chain", 0, 3), ("chain", 1, 3), ("chain", 2, 3), ("result", "c0", BIG)], None),
    # a task raising SystemExit takes its worker thread down; only histories in which nothing else is queued at that
    # moment are judged (what happens to tasks stranded behind it is outside the properties' "failing task")
    "P31-task-raises-SystemExit": ([("start",), ("enq", "exit"), ("join", BIG), ("settle",), ("enq", "ret"), ("result", "c1", BIG), ("join", None), ("stop",)], None),
    "P32-SystemExit-then-restart": ([("start",), ("enq", "exit"), ("join", BIG), ("settle",), ("stop",), ("start",), ("enq", "ret"), ("join", None), ("stop",)], None),
    "P29-stop-while-busy-then-restart": ([("start",), ("enq", "gated"), ("spawn",), ("stop",), ("joinsub",), ("start",), ("enq", "ret"), ("result", "c1", BIG)],
                                         [("open", "c0")]),
    "P30-stop-while-busy-restart-chain": ([("start",), ("enq", "gated"), ("spawn",), ("stop",), ("joinsub",), ("start",), ("chain", 0, 2), ("chain", 1, 2),
                                           ("result", "c1", BIG)], [("open", "c0")]),
    "P28-falsy-outcomes": ([("start",), ("enq", "raise0"), ("enq", "ret0"), ("result", "c0", BIG), ("result", "c1", BIG)], None),
    "P35-unrenderable-exception": ([("enq", "raiseb"), ("enq", "ret"), ("start",), ("result", "c0", BIG), ("result", "c1", BIG), ("join", None), ("stop",)], None),
    "P33-returned-exception-object": ([("start",), ("enq", "retx"), ("enq", "raise"), ("result", "c0", BIG), ("result", "c1", BIG)], None),
    "P25-task-then-chain": ([("start",), ("enq", "ret"), ("chain", 0, 2), ("chain", 1, 2), ("result", "c2", BIG)], None),
    "P26-two-tasks-then-chain": ([("start",), ("enq", "ret"), ("enq", "raise"), ("chain", 0, 2), ("chain", 1, 2), ("result", "c3", BIG)], None),
    "P27-chain-then-task-restart": ([("start",), ("enq", "ret"), ("stop",), ("start",), ("enq", "ret"), ("chain", 0, 2), ("chain", 1, 2), ("result", "c3", BIG)], None),
    "P24-enq-during-idle-retire": ([("start",), ("enq", "ret"), ("result", "c0", BIG), ("spawn",), ("sleep", 61), ("joinsub",), ("result", "s0", BIG)], [("enq", "ret")]),
}

# programs beyond the small scope (many tasks, many restarts, longer chains, larger pools): explored at the first levels of the ladder only


def _many(n):
    kinds = ["ret", "raise", "ret", "ret0", "ret", "raise0"]
    return [("enq", kinds[i % len(kinds)]) for i in range(n)]


CURATED.update({
    "S1-twelve-tasks": ([("start",)] + _many(12) + [("join", None)] + [("result", "c%d" % i, BIG) for i in (0, 5, 11)] + [("stop",)], None),
    "S2-ten-prequeued": (_many(10) + [("start",), ("join", None), ("stop",)], None),
    "S3-four-restarts": ([("start",), ("enq", "ret"), ("join", None), ("stop",)] * 4 + [("start",), ("enq", "ret"), ("result", "c4", BIG), ("stop",)], None),
    "S4-two-submitters-five-each": ([("start",), ("spawn",)] + _many(5) + [("joinsub",), ("join", None), ("stop",)], _many(5)),
    "S5-bounded-queue-six": ([("start",)] + _many(6) + [("join", None), ("stop",)], None),
    "S6-chain4": ([("start",), ("chain", 0, 4), ("chain", 1, 4), ("chain", 2, 4), ("chain", 3, 4), ("result", "c0", BIG)], None),
    "S7-idle-cycles": ([("start",)] + [x for i in range(4) for x in (("enq", "ret"), ("result", "c%d" % i, BIG), ("sleep", 61))] + [("enq", "ret"), ("result", "c4", BIG)], None),
    "S8-backlog-behind-gate": ([("start",), ("enq", "gated")] + _many(8) + [("open", "c0"), ("join", None), ("stop",)], None),
    "S10-callable-kinds": ([("start",), ("enq", "raise.p"), ("enq", "ret.p"), ("enq", "raise.i"), ("enq", "retx"), ("result", "c0", BIG), ("result", "c1", BIG),
                            ("result", "c2", BIG), ("result", "c3", BIG), ("join", None), ("stop",)], None),
    "S11-failing-partial-then-chain": ([("start",), ("enq", "raise.p"), ("result", "c0", BIG), ("chain", 0, 2), ("chain", 1, 2), ("result", "c1", BIG)], None),
    "S9-restart-with-backlog": ([("start",), ("enq", "gated"), ("enq", "ret"), ("enq", "ret"), ("spawn",), ("stop",), ("joinsub",), ("start",)] + _many(4)
                                + [("join", None), ("stop",)], [("open", "c0")]),
})
SCALE = ["S1-twelve-tasks", "S2-ten-prequeued", "S3-four-restarts", "S4-two-submitters-five-each", "S5-bounded-queue-six", "S6-chain4", "S7-idle-cycles",
         "S8-backlog-behind-gate", "S9-restart-with-backlog", "S10-callable-kinds", "S11-failing-partial-then-chain"]
# (pool size, deepest ladder level): with more than 3 workers even the preemption-free level (free choices when a thread blocks) has
# 10^5 schedules for these programs, so larger pools appear only in the 4-chain program
SCALE_SIZES = {"quick": [((1, 0), 1), ((2, 1), 1), ((3, 1), 0)], "thorough": [((1, 0), 2), ((1, 1), 2), ((2, 0), 1), ((2, 1), 1), ((3, 1), 0), ((3, 3), 0)]}


FAULT_PROGRAMS = {
    # the failing creation is always one of start()'s own (minimum) workers: what the pool owes afterwards is that later
    # work still gets the workers it needs (a failed creation is not counted as a worker)
    "F1-first-worker-creation-fails": [("failstart", 1), ("start",), ("enq", "ret"), ("result", "c0", BIG), ("enq", "raise"), ("result", "c1", BIG), ("join", None), ("stop",)],
    "F2-creation-fails-then-chain": [("failstart", 1), ("start",), ("chain", 0, 2), ("chain", 1, 2), ("result", "c0", BIG), ("stop",)],
    "F3-second-worker-creation-fails": [("failstart", 2), ("start",), ("chain", 0, 2), ("chain", 1, 2), ("result", "c1", BIG), ("join", None), ("stop",)],
    "F4-creation-fails-after-restart": [("start",), ("enq", "ret"), ("join", None), ("stop",), ("failstart", 1), ("start",), ("enq", "ret"), ("result", "c1", BIG), ("stop",)],
}


def fault_h(tier):
    out = []
    for name, prog in FAULT_PROGRAMS.items():
        for size in ((1, 1), (2, 1), (2, 2)) if tier == "quick" else ((1, 1), (2, 1), (2, 2), (3, 1), (3, 3)):
            if "chain" in name and size[0] < 2:
                continue
            if name.startswith("F3") and size[1] < 2:
                continue  # the second creation inside start() only exists when min_threads >= 2
            out.append((spec(size, 0, prog, None, "sync"), "%s/%d.%d/q0/sync" % (name, size[0], size[1]), 2))
    return out


def options_h(tier):
    """Pools built with the less common constructor options: bounded queue smaller than the number of idle workers, short and long polling timeouts."""
    progs = {
        "T1-start-stop": [("start",), ("stop",)],
        "T2-task-then-stop": [("start",), ("enq", "ret"), ("result", "c0", BIG), ("stop",)],
        "T3-stop-restart-task": [("start",), ("stop",), ("start",), ("enq", "ret"), ("result", "c0", BIG), ("stop",)],
        "T4-two-tasks-join-stop": [("start",), ("enq", "ret"), ("enq", "raise"), ("join", None), ("stop",)],
    }
    out = []
    for name, prog in progs.items():
        for size in ((2, 2), (3, 3), (3, 1)) if tier == "quick" else ((1, 1), (2, 2), (3, 3), (3, 1), (4, 4)):
            # (the queue timeout is a number of seconds: timeout=None is not a documented value - with it and a bounded queue the
            # unchanged library deadlocks in stop()/enqueue(), which block in put() while holding the pool lock; see DESIGN section 8)
            for q in ((1, 60), (2, 60), (1, 0.5), (0, 0.5), (0, 3600)):
                if name in ("T2-task-then-stop", "T3-stop-restart-task", "T4-two-tasks-join-stop") and tier == "quick" and q not in ((1, 60), (0, 0.5)):
                    continue
                out.append((spec(size, q, prog, None, "sync"), "%s/%d.%d/q%s-t%s/sync" % (name, size[0], size[1], q[0], q[1]), 2))
    return out


def scale_h(tier, names=None):
    out = []
    for n in (names if names is not None and tier == "quick" else SCALE):
        prog, sub = CURATED[n]
        sizes = SCALE_SIZES[tier]
        if n == "S6-chain4":
            # a 4-chain needs 4 workers (the property promises progress for up to max_threads mutually dependent tasks)
            sizes = [((4, 0), 0), ((4, 2), 0)] if tier == "quick" else [((4, 0), 0), ((4, 2), 0), ((4, 4), 0), ((5, 1), 0)]
        for size, deepest in sizes:
            q = 1 if "bounded" in n else 0
            out.append((spec(size, q, prog, sub, "sync"), "%s/%d.%d/q%d/sync" % (n, size[0], size[1], q), deepest))
    return out


ALPHABET = ["S", "X", "Er", "Ex", "Eg", "Ch", "O", "R", "J", "Jt", "Z"]


def generated_programs(L):
    """Every well-typed, normalised controller program of length 1..L over the operation alphabet.

    Waits are timed with a virtual timeout larger than every library timeout, so a program can never
    block by its own fault; stop() is only issued when every gate enqueued so far has been opened."""
    out = []

    def rec(prog, running, ever, tasks, opened, awaited, n):
        if prog:
            out.append(list(prog))
        if sum(1 for o in prog if not (o[0] == "chain" and o[1] == 1)) >= L:
            return
        last = prog[-1][0] if prog else None
        for a in ALPHABET:
            if a == "S":
                if running:
                    continue
                rec(prog + [("start",)], True, True, tasks, opened, awaited, n)
            elif a == "X":
                if not running or len(opened) < sum(1 for k in tasks if k == "gated") or "chain" in tasks:
                    # stop() waits for running tasks: never issue it while a task may still be blocked by the program itself
                    continue
                rec(prog + [("stop",)], False, ever, tasks, opened, awaited, n)
            elif a in ("Er", "Ex", "Eg"):
                kind = {"Er": "ret", "Ex": "raise", "Eg": "gated"}[a]
                if len(tasks) >= 3:
                    continue
                rec(prog + [("enq", kind)], running, ever, tasks + [kind], opened, awaited, n)
            elif a == "Ch":
                if len(tasks) >= 2 or "chain" in tasks:
                    continue
                rec(prog + [("chain", 0, 2), ("chain", 1, 2)], running, ever, tasks + ["chain", "chain"], opened, awaited, n)
            elif a == "O":
                cand = [i for i, k in enumerate(tasks) if k == "gated" and i not in opened]
                if not cand:
                    continue
                rec(prog + [("open", "c%d" % cand[0])], running, ever, tasks, opened + [cand[0]], awaited, n)
            elif a == "R":
                cand = [i for i in range(len(tasks)) if i not in awaited]
                if not cand:
                    continue
                rec(prog + [("result", "c%d" % cand[0], BIG)], running, ever, tasks, opened, awaited + [cand[0]], n)
            elif a == "J":
                if last == "join" or not tasks:
                    continue
                rec(prog + [("join", BIG)], running, ever, tasks, opened, awaited, n)
            elif a == "Jt":
                if last == "join" or not tasks:
                    continue
                rec(prog + [("join", 5)], running, ever, tasks, opened, awaited, n)
            elif a == "Z":
                if last == "sleep" or not ever or not running:
                    continue
                rec(prog + [("sleep", 61)], running, ever, tasks, opened, awaited, n)

    rec([], False, False, [], [], [], 0)
    # keep programs that enqueue something and start the pool at some point
    keep = []
    for p in out:
        names = [o[0] for o in p]
        if ("enq" in names or "chain" in names) and "start" in names:
            keep.append(p)
    return keep


def spec(size, qsize, program, sub, gran):
    return ("checks._pool", "make", (tuple(size), qsize, tuple(tuple(o) for o in program), tuple(tuple(o) for o in (sub or ())) or None, gran))


def split_viols(part, prop):
    """Keeps the violations tagged with `prop` (signatures are 'PROP|signature')."""
    keep = {}
    for sig, val in part.viol.items():
        p, _, rest = sig.partition("|")
        if p == prop:
            keep[rest] = val
    part.viol = keep
    return part


# ---------------------------------------------------------------------------
# job lists shared by C09 / C10 / C11


def curated_jobs(names, sizes, gran, K, T, qsize=0):
    out = []
    for n in names:
        prog, sub = CURATED[n]
        for size in sizes:
            q = 1 if "bounded" in n else qsize
            out.append((spec(size, q, prog, sub, gran), {"K": K, "T": T}, "%s/%s/q%d/%s/K%dT%d" % (n, "%d.%d" % tuple(size), q, gran, K, T)))
    return out


def generated_jobs(L, sizes, gran, K, T, keep=None, Lmin=1):
    out = []
    for prog in generated_programs(L):
        if len(prog) < Lmin:
            continue
        if keep is not None and not keep(prog):
            continue
        label = ";".join("%s%s" % (o[0][0].upper() if o[0] != "stop" else "X", ("" if len(o) == 1 else str(o[1])[:2])) for o in prog)
        for size in sizes:
            out.append((spec(size, 0, prog, None, gran), {"K": K, "T": T}, "gen[%s]/%d.%d/%s/K%dT%d" % ((label,) + tuple(size) + (gran, K, T))))
    return out


LEVELS = [{"K": 0, "T": 0}, {"K": 1, "T": 0}, {"K": 1, "T": 1}, {"K": 2, "T": 1}, {"K": 3, "T": 1}, {"K": 3, "T": 2}, {"K": 4, "T": 2}]


def curated_h(names, sizes, gran, qsize=0):
    out = []
    for n in names:
        prog, sub = CURATED[n]
        for size in sizes:
            q = 1 if "bounded" in n else qsize
            out.append((spec(size, q, prog, sub, gran), "%s/%d.%d/q%d/%s" % (n, size[0], size[1], q, gran)))
    return out


def generated_h(L, sizes, gran, keep=None, Lmin=1):
    out = []
    for prog in generated_programs(L):
        if len(prog) < Lmin or (keep is not None and not keep(prog)):
            continue
        label = ";".join("%s%s" % (o[0][0].upper() if o[0] != "stop" else "X", ("" if len(o) == 1 else str(o[1])[:2])) for o in prog)
        for size in sizes:
            out.append((spec(size, 0, prog, None, gran), "gen[%s]/%d.%d/%s" % (label, size[0], size[1], gran)))
    return out


def run_pool_leg(part, prop, harnesses, budget, hard_cap=None, global_budget=None):
    from mc import explore

    seen = set()
    uniq = []
    for h in harnesses:
        if h[1] not in seen:
            seen.add(h[1])
            uniq.append(h)
    total = explore.explore_adaptive(uniq, LEVELS, budget, hard_cap=hard_cap, global_budget=global_budget)
    split_viols(total, prop)
    part.merge(total)
    part.counters["harnesses"] = part.counters.get("harnesses", 0) + len(uniq)


def replay_pool(prop, case):
    from mc import explore

    sched.install()
    out = []
    for sig, detail in explore.replay_schedule(case):
        p, _, rest = sig.partition("|")
        if p == prop:
            out.append((rest, detail))
    return out
