"""C20 - serialisation customisation is honoured at every depth.

E3 over programs/configurations: generated classes x ignore lists (every
subset of the field names, per object, per call, both) x handler tables
(user class, datetime.date, tuple, str, bool, two at once) x embedding
contexts x configured method/attribute names; the dump output is compared
with a reference walk written from the property text.
"""
import datetime
import itertools

from jsonrpclib import jsonclass
from jsonrpclib.config import Config

from mc import classgen, gen
from mc.core import Out, drive
from mc.ref import beans

SPECS = [
    ("dict", (("a", "b"),), "none", "none"),
    ("dict", (("a", "c"),), "none", "none"),
    ("slots", (("a", "b"),), "none", "none"),
    ("slots", (("a", "c"),), "none", "none"),
    ("dict", (("a",), ("b", "c")), "none", "none"),
    ("slots", (("c",), ("a", "b")), "none", "none"),
    ("slots-on-dict", (("a",), ("b",)), "none", "none"),
    ("dict-on-slots", (("b",), ("a",)), "none", "none"),
    ("slots@_", (("a", "c"),), "none", "none"),       # class names with leading underscores (mangling drops them)
    ("dict@__", (("c",), ("a", "c")), "none", "none"),
]
NQUICK = len(SPECS)
# thorough tier: every generated hierarchy of depth 0-1 (all four storage kinds, 0-2 fields per level) in addition
SPECS = SPECS + [sp for sp in classgen.specs(1) if sp not in SPECS]
CONTEXTS = ["top", "list", "dict", "bean-list", "bean-dict", "two-levels", "deep40"]


class Other(object):
    """A second user class (gets a handler in some tables)."""

    def __init__(self):
        self.z = 1


class EqBean(object):
    """An unsupported value whose __eq__ compares attributes without a type guard (comparing it with a string raises AttributeError)."""

    __slots__ = ()  # not a bean the translator can dump field by field... it has no fields at all

    def __eq__(self, other):
        return self.missing_attribute == other.missing_attribute

    __hash__ = None


class _EqUnsupported(complex):
    """A value of an unsupported type (a complex number) whose __eq__ cannot be applied to strings."""

    def __eq__(self, other):
        return self.real == other.real and self.tag == other.tag

    __hash__ = None


def gen_func():
    yield 1


UNSUPPORTED = ["object", "function", "complex", "generator", "date", "bean", "fraction", "range", "class", "module", "memoryview", "ellipsis", "complex-eq"]


def unsupported_value(kind):
    import fractions
    return {"object": object(), "function": gen_func, "complex": 1 + 2j, "generator": gen_func(), "date": datetime.date(2020, 1, 2),
            "bean": beans.Plain(), "fraction": fractions.Fraction(1, 3), "range": range(3), "class": Other, "module": fractions,
            "memoryview": memoryview(b"ab"), "ellipsis": Ellipsis, "complex-eq": _EqUnsupported()}[kind]


HANDLER_TABLES = ["none", "user", "date", "tuple", "str", "bool", "user+date", "other", "list", "dict", "int", "mylist", "float",
                  "date-none", "date-zero", "date-empty", "date-false", "date-list"]


class Recorder(object):
    def __init__(self):
        self.calls = []

    def handler(self, tname):
        def h(obj, serialize_method, ignore_attribute, ignore, config):
            self.calls.append((tname, id(obj), serialize_method, ignore_attribute, list(ignore), config))
            return handler_value(tname, obj)
        return h


RETURNS = {"date-none": None, "date-zero": 0, "date-empty": "", "date-false": False, "date-list": []}


def handler_value(tname, obj):
    """What the recording handler for `tname` returns (emitted verbatim): a marked dictionary, or - tables 'date-*' - None / a falsy value."""
    if tname in RETURNS:
        return RETURNS[tname]
    return {"__handled__": tname, "token": token(obj)}


def token(obj):
    if isinstance(obj, (str, bool, tuple, datetime.date, float)):
        return repr(obj) if not isinstance(obj, tuple) or len(obj) < 20 else "tuple-of-%d" % len(obj)
    return "obj-%d" % id(obj)


def embed(ctx, x):
    if ctx == "top":
        return x
    if ctx == "list":
        return [x, (x,)]
    if ctx == "dict":
        return {"k": x, "l": [x]}
    if ctx == "deep40":
        for i in range(40):
            x = {"k": x} if i % 2 else (x,) if i % 3 == 0 else [x]
        return x
    outer = beans.Plain()
    if ctx == "bean-list":
        outer.items = [x]
        return outer
    if ctx == "bean-dict":
        outer.d = {"k": x}
        return outer
    inner = beans.Plain()
    inner.items = [x]
    outer.d = {"k": [inner]}
    return [outer]


class Ref(object):
    """Reference walk of the expected dump output."""

    def __init__(self, handled_types, ignore_call, ignore_attr_name, target_cls, obj_ignore):
        self.handled = handled_types  # {type: tname}
        self.ignore_call = list(ignore_call)
        self.ignore_attr_name = ignore_attr_name
        self.target_cls = target_cls
        self.obj_ignore = obj_ignore
        self.occurrences = {}  # tname -> count

    def supported(self, v):
        return isinstance(v, (dict, list, set, frozenset, tuple, str, bytes, int, float, bool, type(None))) or type(v) in self.handled \
            or any(isinstance(v, t) for t in self.handled)

    def compare(self, x, y, path="$"):
        """Returns '' when y (the real dump output) is what the property demands for x, else a complaint."""
        if type(x) in self.handled:
            tname = self.handled[type(x)]
            self.occurrences[tname] = self.occurrences.get(tname, 0) + 1
            want = handler_value(tname, x)
            if not gen.same(y, want) and y != want or (want is None) != (y is None):
                return "%s: object of handled type %s dumped as %r, expected the handler's value %r" % (path, tname, y, want)
            return ""
        if x is None or isinstance(x, (bool, int, float, str, bytes)):
            return "" if gen.same(x, y) else "%s: primitive %r dumped as %r" % (path, x, y)
        if isinstance(x, (list, tuple)):
            if type(y) is not list or len(y) != len(x):
                return "%s: %r dumped as %r" % (path, x, y)
            for i, (a, b) in enumerate(zip(x, y)):
                c = self.compare(a, b, "%s[%d]" % (path, i))
                if c:
                    return c
            return ""
        if isinstance(x, dict):
            if type(y) is not dict or set(y) != set(x):
                return "%s: dict keys %r dumped as %r" % (path, sorted(map(repr, x)), y)
            for k in x:
                c = self.compare(x[k], y[k], "%s[%r]" % (path, k))
                if c:
                    return c
            return ""
        # a bean
        if type(y) is not dict or "__jsonclass__" not in y:
            return "%s: object %r dumped as %r" % (path, x, y)
        ignored = set(self.ignore_call)
        own = getattr(x, self.ignore_attr_name, None)
        if own:
            ignored |= set(own)
        names = set(getattr(x, "__dict__", {}))
        for klass in type(x).__mro__:
            for s in vars(klass).get("__slots__", ()):
                names.add("_%s%s" % (klass.__name__.lstrip("_"), s) if s.startswith("__") and not s.endswith("__") else s)
        want_keys = {"__jsonclass__"}
        for n in names:
            if n in ignored:
                continue
            try:
                v = getattr(x, n)
            except AttributeError:
                continue
            if not self.supported(v):
                continue
            if isinstance(v, str) and v in ignored:
                continue  # the library also drops values equal to an ignored name; the property is silent (not asserted)
            want_keys.add(n)
        got_keys = set(y)
        leaked = (got_keys & ignored) - {"__jsonclass__"}
        if leaked:
            return "%s: ignored attribute(s) %s appear in the dump of %s: %r" % (path, sorted(leaked), type(x).__name__, y)
        if got_keys != want_keys:
            missing = want_keys - got_keys
            extra = got_keys - want_keys
            return "%s: dump of %s has keys %s; missing %s, unexpected %s" % (path, type(x).__name__, sorted(got_keys), sorted(missing), sorted(extra))
        for n in want_keys - {"__jsonclass__"}:
            c = self.compare(getattr(x, n), y[n], "%s.%s" % (path, n))
            if c:
                return c
        return ""


def build_case(case):
    si, ign_obj, ign_call, table, ctx, naming, unsup = case
    spec = SPECS[si]
    cls, fields, modname = classgen.build(spec)
    real = [r for w, r in fields]
    o = cls()
    for i, r in enumerate(real):
        setattr(o, r, ["v-%d" % i, (i, "t"), True, {"k": i}][i % 4])
    extra_field = None
    if unsup == "subtypes":
        # values of subclass types: handlers are keyed by the exact type (a handler for list is not used for a list subclass)
        setattr(o, real[0], gen.MyList([1, ("x", gen.MyList())]))
        if len(real) > 1:
            setattr(o, real[1], gen.OrderedDict([("k", (1,)), ("m", gen.MyStr("s"))]))
    elif unsup == "wide":
        # long sequences of scalars (beyond any small bound): handlers for scalar types apply to every item
        setattr(o, real[0], ["s%d" % i for i in range(600)] + [True])
        if len(real) > 1:
            setattr(o, real[1], tuple(float(i) for i in range(1030)))
    elif unsup is not None and not hasattr(cls, "__slots__"):
        o.extra_field = unsupported_value(unsup)
        extra_field = "extra_field"
    elif unsup is not None:
        # slotted classes cannot take another attribute: put the unsupported value in the first field
        setattr(o, real[0], unsupported_value(unsup))
    return spec, cls, real, o


def run_case(case):
    si, ign_obj, ign_call, table, ctx, naming, unsup = case
    out = Out(cls="%s/%s/%s" % (table, ctx, naming))
    spec, cls, real, o = build_case(case)
    rec = Recorder()
    handlers = {}
    handled = {}

    def add(t, tname):
        handlers[t] = rec.handler(tname)
        handled[t] = tname

    if "user" in table:
        add(cls, "user")
    if table in RETURNS:
        add(datetime.date, table)
    elif "date" in table:
        add(datetime.date, "date")
    if table == "tuple":
        add(tuple, "tuple")
    if table == "str":
        add(str, "str")
    if table == "bool":
        add(bool, "bool")
    if table == "other":
        add(Other, "other")
    if table == "list":
        add(list, "list")
    if table == "dict":
        add(dict, "dict")
    if table == "int":
        add(int, "int")
    if table == "mylist":
        add(gen.MyList, "mylist")
    if table == "float":
        add(float, "float")
    cfg_kwargs = {}
    call_kwargs = {}
    ign_attr = "_ignore"
    if naming == "config-names":
        cfg_kwargs = {"serialize_method": "toJson", "ignore_attribute": "skipThese"}
        ign_attr = "skipThese"
    elif naming == "call-names":
        cfg_kwargs = {"serialize_method": "wrongOne", "ignore_attribute": "wrongAttr"}
        call_kwargs = {"serialize_method": "toJson", "ignore_attribute": "skipThese"}
        ign_attr = "skipThese"
    cfg = Config(serialize_handlers=handlers, **cfg_kwargs)
    own_ignore = [real[i] for i in ign_obj]
    call_ignore = [real[i] for i in ign_call]
    decoys = []
    try:
        if own_ignore or naming != "defaults":
            setattr(cls, ign_attr, list(own_ignore))
        if naming != "defaults":
            # decoys under the default / configured-but-overridden names: must not be consulted
            for nm in ("_ignore", "wrongAttr"):
                if nm != ign_attr:
                    setattr(cls, nm, list(real))
                    decoys.append(nm)
        value = embed(ctx, o)
        if "other" == table:
            value = [value, Other()]
        try:
            d = jsonclass.dump(value, ignore=call_ignore or None, config=cfg, **call_kwargs)
        except Exception as ex:
            return out.bad("C20/dump-raises-%s" % type(ex).__name__, "case %r raised %r" % (case, ex))
        ref = Ref(handled, call_ignore, ign_attr, cls, own_ignore)
        why = ref.compare(value, d)
        # dumping does not alter the ignore lists it consulted, and a second dump without the per-call list is judged on its own
        if ign_attr in vars(cls) and list(vars(cls)[ign_attr]) != list(own_ignore):
            out.bad("C20/dump-modifies-the-object-ignore-list", "case %r: the class attribute %s is %r after the dump, it was %r" % (case, ign_attr, vars(cls)[ign_attr], own_ignore))
            setattr(cls, ign_attr, list(own_ignore))
        if call_ignore and not why:
            first_calls = list(rec.calls)
            try:
                d2 = jsonclass.dump(value, config=cfg, **call_kwargs)
                why2 = Ref(handled, [], ign_attr, cls, own_ignore).compare(value, d2)
                if why2:
                    out.bad("C20/second-dump-depends-on-the-first", "case %r: a second dump without the per-call ignore list: %s" % (case, why2))
            except Exception as ex:
                out.bad("C20/dump-raises-%s" % type(ex).__name__, "case %r: second dump raised %r" % (case, ex))
            rec.calls[:] = first_calls  # the handler-call oracle below concerns the first dump
        if why:
            kind = "ignored-attribute-appears" if "ignored attribute" in why else ("handler-not-used" if "handled type" in why else
                                                                                   ("field-set-differs" if "has keys" in why else "structure-differs"))
            sub = "/unsupported-%s" % unsup if unsup else ""
            out.bad("C20/%s/%s%s" % (kind, "nested" if ctx != "top" else "top", sub), "case %r: %s" % (case, why))
        else:
            for tname, n in ref.occurrences.items():
                got = sum(1 for c in rec.calls if c[0] == tname)
                if got != n:
                    out.bad("C20/handler-call-count", "case %r: handler for %s called %d times for %d occurrences" % (case, tname, got, n))
            eff_ser = call_kwargs.get("serialize_method") or cfg.serialize_method
            eff_ign = call_kwargs.get("ignore_attribute") or cfg.ignore_attribute
            for c in rec.calls:
                if c[2] != eff_ser or c[3] != eff_ign or c[4] != call_ignore or c[5] is not cfg:
                    out.bad("C20/handler-arguments", "case %r: handler called with (%r, %r, %r, config is cfg=%s)" % (case, c[2], c[3], c[4], c[5] is cfg))
                    break
    finally:
        for nm in set([ign_attr] + decoys):
            if nm in vars(cls):
                delattr(cls, nm)
    return out


def subsets_idx(n):
    for r in range(n + 1):
        for c in itertools.combinations(range(n), r):
            yield c


def cases(tier):
    for si, spec in enumerate(SPECS if tier == "thorough" else SPECS[:NQUICK]):
        n = sum(len(l) for l in spec[1])
        subs = list(subsets_idx(n))
        for ign_obj in subs:
            for ign_call in subs:
                for ctx in CONTEXTS:
                    if tier == "quick" and len(ign_obj) + len(ign_call) > 2 and ctx not in ("top", "bean-list"):
                        continue
                    yield (si, ign_obj, ign_call, "none", ctx, "defaults", None)
        for table in HANDLER_TABLES[1:]:
            for ctx in CONTEXTS:
                for ign_call in ((), (0,)):
                    for naming in ("defaults", "config-names", "call-names"):
                        yield (si, (), ign_call, table, ctx, naming, None)
        for naming in ("config-names", "call-names"):
            for ign_obj in subs:
                for ctx in ("top", "list", "two-levels"):
                    yield (si, ign_obj, (), "none", ctx, naming, None)
        for unsup in UNSUPPORTED:
            for table in ("none", "date", "user"):
                for ctx in ("top", "list", "bean-dict"):
                    yield (si, (), (), table, ctx, "defaults", unsup)
            # the same next to non-empty ignore lists (per object, per call, both)
            for ign_obj, ign_call in (((n - 1,), ()), ((), (n - 1,)), ((n - 1,), (n - 1,))):
                yield (si, ign_obj, ign_call, "none", "top", "defaults", unsup)
                yield (si, ign_obj, ign_call, "none", "bean-list", "defaults", unsup)
        for table in ("none", "list", "dict", "int", "mylist", "tuple", "str"):
            for ctx in CONTEXTS:
                yield (si, (), (), table, ctx, "defaults", "subtypes")
        for table in ("none", "str", "float", "bool", "tuple"):
            for ctx in ("top", "list", "bean-dict"):
                yield (si, (), (), table, ctx, "defaults", "wide")
        for table in RETURNS:
            for ctx in CONTEXTS:
                yield (si, (), (), table, ctx, "defaults", "date")


# -- serialisation method name ------------------------------------------------------------


def rpc_ser_cases(tier):
    for ser in ("list", "custom-list"):
        for form in ("2.0", "1.0"):
            for sv in (2.0, 1.0):
                for place in ("result", "batch"):
                    yield (ser, form, sv, place)


def check_rpc_ser(case):
    """The configured method name must also be the one consulted when a server dumps a result (any request form)."""
    import json
    from jsonrpclib.SimpleJSONRPCServer import SimpleJSONRPCDispatcher

    ser, form, sv, place = case
    out = Out(cls="rpc-method-name/%s/%s" % (ser, form))
    spec = ("dict", (("a",),), ser, "none")
    cls, fields, modname = classgen.build(spec)
    cfg = Config(version=sv, serialize_method="toJson" if ser == "custom-list" else "_serialize", ignore_attribute="skipThese")

    def give():
        o = cls(1, "two", [3])
        o.extra = "E"
        return [o]

    d = SimpleJSONRPCDispatcher(config=cfg)
    d.register_function(give)
    req = {"method": "give", "params": [], "id": 1}
    if form == "2.0":
        req["jsonrpc"] = "2.0"
    body = json.dumps([req] if place == "batch" else req)
    try:
        reply = json.loads(d._marshaled_dispatch(body))
    except Exception as ex:
        return out.bad("C20/rpc/raises-%s" % type(ex).__name__, "%r raised %r" % (case, ex))
    r = reply[0] if isinstance(reply, list) else reply
    node = find_bean(r.get("result"), cls.__name__) if isinstance(r, dict) else None
    if node is None:
        return out.bad("C20/rpc/configured-serialisation-method-not-used", "%r: reply %r" % (case, reply))
    if node.get("__jsonclass__", [None, None])[1:] != [[1, "two", [3]]] or node.get("extra") != "E":
        out.bad("C20/rpc/configured-serialisation-method-not-used", "%r: result dumped as %r, expected the configured method's constructor args" % (case, node))
    return out


# -- every client entry point that marshals parameters, and server configuration changed between requests ---------------


def entry_cases(tier):
    for entry in ("call", "notify", "multicall", "multicall-notify", "multicall-mixed"):
        for version in (2.0, 1.0):
            for what in ("method-name", "handler", "ignore"):
                yield ("client", entry, version, what)
    for first in ("none", "1.0", "2.0", "batch"):
        for change in ("add-handler", "rename-ignore", "replace-config"):
            for form in ("1.0", "2.0"):
                yield ("server", first, change, form)


def check_entry(case):
    import json

    import jsonrpclib
    from jsonrpclib.SimpleJSONRPCServer import SimpleJSONRPCDispatcher
    from mc.loop import _Base

    side, a, b, c = case
    out = Out(cls="entry/%s/%s" % (side, a))
    spec = ("dict", (("a",),), "custom-list", "none")
    cls, fields, modname = classgen.build(spec)
    rec = Recorder()

    def obj():
        o = cls(1, "two", [3])
        o.extra = "E"
        return o

    def judge(node_holder, what, where):
        if what == "method-name":
            node = find_bean(node_holder, cls.__name__)
            if node is None or node.get("__jsonclass__", [None, None])[1:] != [[1, "two", [3]]]:
                out.bad("C20/%s/configured-serialisation-method-not-used" % side, "%r: %s marshalled as %r" % (case, where, node_holder))
        elif what == "handler":
            if "__handled__" not in json.dumps(node_holder):
                out.bad("C20/%s/handler-not-used" % side, "%r: %s marshalled as %r, the configured handler was not used" % (case, where, node_holder))
        else:
            node = find_bean(node_holder, "Plain")
            if node is None or "hidden" in node or "shown" not in node:
                out.bad("C20/%s/ignored-attribute-appears" % side, "%r: %s marshalled as %r" % (case, where, node_holder))

    def value(what):
        if what == "method-name":
            return obj()
        if what == "handler":
            return [datetime.date(2020, 1, 2)]
        p = beans.Plain()
        p.shown, p.hidden, p.skipThese = 1, 2, ["hidden"]
        return p

    def config(what, version):
        if what == "method-name":
            return Config(version=version, serialize_method="toJson")
        if what == "handler":
            return Config(version=version, serialize_handlers={datetime.date: rec.handler("date")})
        return Config(version=version, ignore_attribute="skipThese")

    if side == "client":
        class Rec(_Base):
            def request(self, host, handler, request_body, verbose=0):
                self.sent.append(request_body)
                return ""
        t = Rec()
        cfg = config(c, b)
        v = value(c)
        try:
            proxy = jsonrpclib.ServerProxy("http://h/", transport=t, config=cfg, version=b)
            if a == "call":
                try:
                    proxy.m(v)
                except Exception:
                    pass  # the canned empty reply is not a result
            elif a == "notify":
                proxy._notify.m(v)
            else:
                mc = jsonrpclib.MultiCall(proxy, config=cfg)
                if a in ("multicall", "multicall-mixed"):
                    mc.m(v)
                if a in ("multicall-notify", "multicall-mixed"):
                    mc._notify.n(v)
                try:
                    mc()
                except Exception:
                    pass
        except Exception as ex:
            return out.bad("C20/client/raises-%s" % type(ex).__name__, "%r raised %r" % (case, ex))
        if not t.sent:
            return out.bad("C20/client/nothing-sent", "%r" % (case,))
        sent = json.loads(t.sent[-1] if isinstance(t.sent[-1], str) else t.sent[-1].decode("utf-8"))
        for e in (sent if isinstance(sent, list) else [sent]):
            judge(e.get("params"), c, "parameter of %s" % e.get("method"))
        return out
    # server: the configuration in force when a request is served is the one honoured, whatever was served before
    first, change, form = a, b, c
    cfg = Config(version=2.0)
    d = SimpleJSONRPCDispatcher(config=cfg)
    what = {"add-handler": "handler", "rename-ignore": "ignore", "replace-config": "method-name"}[change]
    d.register_function(lambda: value(what), "give")
    d.register_function(lambda: 1, "one")

    def req(form_, rid):
        r = {"method": "give", "params": [], "id": rid}
        if form_ == "2.0":
            r["jsonrpc"] = "2.0"
        return r
    try:
        if first == "batch":
            d._marshaled_dispatch(json.dumps([req("1.0", 1), req("2.0", 2)]))
        elif first != "none":
            d._marshaled_dispatch(json.dumps(dict(req(first, 1), method="one")))
            d._marshaled_dispatch(json.dumps(req(first, 2)))
        if change == "add-handler":
            cfg.serialize_handlers[datetime.date] = rec.handler("date")
        elif change == "rename-ignore":
            cfg.ignore_attribute = "skipThese"
        else:
            d.json_config = Config(version=2.0, serialize_method="toJson")
        reply = json.loads(d._marshaled_dispatch(json.dumps(req(form, 3))))
    except Exception as ex:
        return out.bad("C20/server/raises-%s" % type(ex).__name__, "%r raised %r" % (case, ex))
    judge(reply.get("result"), what, "result of a %s request after %s" % (form, change))
    return out


# -- the reply to a 1.0-form request on a 2.0 server honours the same customisation as the reply to a 2.0-form request ---------


class _Counting(object):
    """A stateful handler object (the handler is a bound method; the owner holds a lock like many real ones)."""

    def __init__(self):
        import threading
        self.lock = threading.Lock()
        self.calls = 0

    def handle(self, obj, serialize_method, ignore_attribute, ignore, config):
        with self.lock:
            self.calls += 1
        return {"__handled__": "stateful", "n": self.calls}


FEATURES = ["stateful-bound-method-handler", "partial-handler", "callable-instance-handler", "none-entry", "custom-method-name", "custom-ignore-attribute",
            "local-class", "everything"]


def form_cases(tier):
    for f in FEATURES:
        for place in ("single", "batch"):
            for sv in (2.0, 2):
                yield (f, place, sv)


def check_forms(case):
    import functools
    import json

    from jsonrpclib.SimpleJSONRPCServer import SimpleJSONRPCDispatcher

    feature, place, sv = case
    out = Out(cls="forms/" + feature)
    spec = ("dict", (("a",),), "custom-list", "none")
    cls, fields, modname = classgen.build(spec)
    owner = _Counting()
    cfg = Config(version=sv)
    every = feature == "everything"
    if feature == "stateful-bound-method-handler" or every:
        cfg.serialize_handlers[datetime.date] = owner.handle
    if feature == "partial-handler":
        cfg.serialize_handlers[datetime.date] = functools.partial(owner.handle)
    if feature == "callable-instance-handler":
        class H(object):
            def __call__(self, *a):
                return owner.handle(*a)
        cfg.serialize_handlers[datetime.date] = H()
    if feature == "none-entry" or every:
        cfg.serialize_handlers[Other] = None  # an entry without a handler: the type is dumped by the built-in code wherever it occurs
    if feature == "custom-method-name" or every:
        cfg.serialize_method = "toJson"
    if feature == "custom-ignore-attribute" or every:
        cfg.ignore_attribute = "skipThese"
    if feature == "local-class" or every:
        cfg.classes.add(cls, "LocalAlias")

    def give():
        o = cls(1, "two", [3])
        o.extra = "E"
        p = beans.Plain()
        p.when, p.other, p.obj, p.shown, p.hidden, p.skipThese = datetime.date(2020, 1, 2), Other(), o, 1, 2, ["hidden"]
        return [p, {"k": p}]

    d = SimpleJSONRPCDispatcher(config=cfg)
    d.register_function(give)
    results = {}
    for form in ("2.0", "1.0"):
        req = {"method": "give", "params": [], "id": 1}
        if form == "2.0":
            req["jsonrpc"] = "2.0"
        before = owner.calls
        try:
            r = json.loads(d._marshaled_dispatch(json.dumps([req] if place == "batch" else req)))
        except Exception as ex:
            return out.bad("C20/forms/raises-%s" % type(ex).__name__, "%r: the %s request raised %r" % (case, form, ex))
        r = r[0] if isinstance(r, list) else r
        if "result" not in r or r.get("error"):
            return out.bad("C20/forms/request-fails", "%r: the %s request was answered %r" % (case, form, r))
        text = json.dumps(r["result"], sort_keys=True)
        text = text.replace('"n": %d' % (before + 1), '"n": <first>').replace('"n": %d' % (before + 2), '"n": <second>')
        results[form] = (text, owner.calls - before)
    if results["1.0"] != results["2.0"]:
        out.bad("C20/forms/customisation-depends-on-the-request-form", "%r: result of the 2.0 request %r (handler calls %d), of the 1.0 request %r (handler calls %d)"
                % (case, results["2.0"][0][:300], results["2.0"][1], results["1.0"][0][:300], results["1.0"][1]))
    return out


def leg_forms(part, tier, shard, nshards):
    drive(part, "request-forms", form_cases(tier), shard, nshards, check_forms)


# -- several beans in one dump: each is dumped with its own ignore list, the caller's list is left alone -------------------------


def aliasing_cases(tier):
    for order in ("ignoring-first", "ignoring-last", "two-ignoring"):
        for call_ignore in ((), ("zz",), ("b0",)):
            for ctx in ("list", "dict", "bean"):
                yield (order, call_ignore, ctx)


def check_aliasing(case):
    order, call_ignore, ctx = case
    out = Out(cls="several-beans")
    A, fa, _ = classgen.build(("dict", (("a", "b"),), "none", "none"))
    B, fb, _ = classgen.build(("slots", (("a", "b"),), "none", "none"))
    a, b = A(), B()
    a.a0, a._b0, b.a0, b._b0 = "A-a", "A-b", "B-a", "B-b"
    try:
        A._ignore = ["a0"]
        if order == "two-ignoring":
            B._ignore = ["_b0"]
        pair = [a, b] if order != "ignoring-last" else [b, a]
        value = pair if ctx == "list" else ({"x": pair[0], "y": pair[1]} if ctx == "dict" else None)
        if ctx == "bean":
            value = beans.Plain()
            value.items = list(pair)  # (a bean held directly by a field is of an unsupported type and is omitted: hold them in a list)
        mine = list(call_ignore)
        for attempt in (1, 2):
            try:
                d = jsonclass.dump(value, ignore=mine if call_ignore else None)
            except Exception as ex:
                return out.bad("C20/dump-raises-%s" % type(ex).__name__, "%r raised %r" % (case, ex))
            if mine != list(call_ignore):
                out.bad("C20/dump-modifies-the-caller-ignore-list", "%r: the ignore argument is %r after dump #%d" % (case, mine, attempt))
                mine = list(call_ignore)
            nb = find_bean(d, B.__name__) if B.__name__ != A.__name__ else None
            text = repr(d)
            want_b = {"a0": "B-a", "_b0": "B-b"}
            if order == "two-ignoring":
                want_b.pop("_b0")
            for k in call_ignore:
                want_b.pop(k.replace("b0", "_b0") if k == "b0" else k, None)
            for k, v in want_b.items():
                if v not in text:
                    out.bad("C20/ignore-list-of-one-object-applied-to-another", "%r: dump #%d lost field %s of the object that does not ignore it: %r" % (case, attempt, k, d))
            if "A-a" in text:
                out.bad("C20/ignored-attribute-appears/nested", "%r: the ignored field a0 of the first class appears: %r" % (case, d))
            if "A-b" not in text:
                out.bad("C20/field-set-differs/nested", "%r: field _b0 of the ignoring object is missing: %r" % (case, d))
    finally:
        for c in (A, B):
            if "_ignore" in vars(c):
                delattr(c, "_ignore")
    return out


def leg_aliasing(part, tier, shard, nshards):
    drive(part, "several-beans", aliasing_cases(tier), shard, nshards, check_aliasing)


def leg_entry(part, tier, shard, nshards):
    drive(part, "entry-points", entry_cases(tier), shard, nshards, check_entry)


def ser_cases(tier):
    for ser in ("list", "custom-list"):
        for naming in ("defaults", "config-names", "call-names"):
            if ser == "custom-list" and naming == "defaults":
                continue  # there the decoy _serialize is the configured method
            for ctx in CONTEXTS:
                yield (ser, naming, ctx)


def check_ser(case):
    ser, naming, ctx = case
    out = Out(cls="ser/%s/%s" % (ser, naming))
    spec = ("dict", (("a",),), ser, "none")
    cls, fields, modname = classgen.build(spec)
    o = cls(1, "two", [3])
    o.extra = "E"
    cfg_kwargs, call_kwargs = {}, {}
    if naming == "config-names":
        cfg_kwargs = {"serialize_method": "toJson"}
    elif naming == "call-names":
        cfg_kwargs = {"serialize_method": "wrongOne"}
        call_kwargs = {"serialize_method": "toJson"}
    cfg = Config(**cfg_kwargs)
    # which method must be consulted?
    eff = call_kwargs.get("serialize_method") or cfg.serialize_method
    has = hasattr(cls, eff)
    try:
        d = jsonclass.dump(embed(ctx, o), config=cfg, **call_kwargs)
    except AssertionError as ex:
        return out.bad("C20/default-named-method-consulted-despite-configuration", "case %r: %r" % (case, ex))
    except Exception as ex:
        return out.bad("C20/dump-raises-%s" % type(ex).__name__, "case %r raised %r" % (case, ex))
    node = find_bean(d, cls.__name__)
    if node is None:
        return out.bad("C20/structure-differs", "case %r: no dumped bean found in %r" % (case, d))
    if has:
        if node.get("__jsonclass__", [None, None])[1:] != [[1, "two", [3]]] or node.get("extra") != "E":
            out.bad("C20/configured-serialisation-method-not-used", "case %r: dumped as %r, expected constructor args [1,'two',[3]] and extra" % (case, node))
    else:
        if node.get("__jsonclass__", [None, None])[1:] != [[]]:
            out.bad("C20/unconfigured-serialisation-method-used", "case %r: dumped as %r although the configured method name %r does not exist" % (case, node, eff))
    return out


def find_bean(d, cname):
    if isinstance(d, dict):
        jc = d.get("__jsonclass__")
        if isinstance(jc, list) and jc and str(jc[0]).endswith("." + cname):
            return d
        for v in d.values():
            r = find_bean(v, cname)
            if r is not None:
                return r
    elif isinstance(d, list):
        for v in d:
            r = find_bean(v, cname)
            if r is not None:
                return r
    return None


# -- histories on one Config: handlers registered / removed between dumps ---------------------------

EVENTS = ["dump", "add-date", "add-other", "del-date", "copy", "dump-plain"]


def history_cases(tier):
    depth = 5 if tier == "thorough" else 4
    for k in range(2, depth + 1):
        for seq in itertools.product(range(len(EVENTS)), repeat=k):
            if EVENTS[seq[-1]] != "dump" or not any(EVENTS[i].startswith(("add", "del")) for i in seq):
                continue
            for start in ("fresh", "prepopulated"):
                yield (start, seq)


def check_history(case):
    start, seq = case
    out = Out(cls="history/%d" % len(seq))
    rec = Recorder()
    cfg = Config(serialize_handlers={datetime.date: rec.handler("date")} if start == "prepopulated" else None)
    handled = {datetime.date: "date"} if start == "prepopulated" else {}
    cls, fields, modname = classgen.build(SPECS[0])
    for step, ei in enumerate(seq):
        ev = EVENTS[ei]
        if ev == "add-date":
            cfg.serialize_handlers[datetime.date] = rec.handler("date")
            handled[datetime.date] = "date"
        elif ev == "add-other":
            cfg.serialize_handlers[Other] = rec.handler("other")
            handled[Other] = "other"
        elif ev == "del-date":
            cfg.serialize_handlers.pop(datetime.date, None)
            handled.pop(datetime.date, None)
        elif ev == "copy":
            cfg = cfg.copy()
        else:
            o = cls()
            if ev == "dump":
                o.when = datetime.date(2021, 2, 3)
                o.other = Other()
                o.items = [datetime.date(2022, 3, 4), Other()]
            value = [o, {"k": o}]
            try:
                d = jsonclass.dump(value, config=cfg)
            except Exception as ex:
                return out.bad("C20/dump-raises-%s" % type(ex).__name__, "history %r step %d raised %r" % (case, step, ex))
            why = Ref(dict(handled), [], "_ignore", cls, []).compare(value, d)
            if why:
                return out.bad("C20/handler-table-change-not-honoured", "history %r (%s) step %d: %s" % (case, [EVENTS[i] for i in seq], step, why))
    return out


def leg_history(part, tier, shard, nshards):
    drive(part, "config-history", history_cases(tier), shard, nshards, check_history)


def leg_custom(part, tier, shard, nshards):
    drive(part, "customisation", cases(tier), shard, nshards, run_case)


def leg_ser(part, tier, shard, nshards):
    drive(part, "method-name", ser_cases(tier), shard, nshards, check_ser)


def leg_rpc_ser(part, tier, shard, nshards):
    drive(part, "rpc-method-name", rpc_ser_cases(tier), shard, nshards, check_rpc_ser)


LEGS = {"request-forms": leg_forms, "several-beans": leg_aliasing, "entry-points": leg_entry, "customisation": leg_custom, "method-name": leg_ser, "rpc-method-name": leg_rpc_ser, "config-history": leg_history}

META = {
    "technique": "bounded-exhaustive enumeration of generated classes, ignore lists, handler tables, contexts and configured names against a reference walk "
    "of the expected dump output",
    "rule": "request-forms: a 2.0 server (version 2.0 and 2) whose Config has a stateful bound-method / partial / callable-instance handler, a handler-table entry "
    "without handler, a custom method name, a custom ignore attribute, a local class, or all of them: the result of a 1.0-form request equals that of the 2.0-form "
    "request, with the same number of handler calls, single and in a batch; several-beans: two beans in one dump (list, dict, fields of a third bean) with "
    "different ignore lists x per-call list, dumped twice (each keeps its own fields, the caller's list is untouched); entry-points: {ServerProxy call, notification, MultiCall job, MultiCall notification, mixed batch} x versions x {configured serialisation-method name, "
    "handler, ignore-attribute name} observed in the request text; server: {no, 1.0, 2.0, batch} earlier requests x configuration change {handler added, ignore "
    "attribute renamed, Config replaced} x request form, the result must follow the configuration in force; 8 generated class hierarchies (dict/slots/mixed storage, public/protected/mangled fields) x every pair of subsets of the field names as "
    "per-object and per-call ignore lists x 6 contexts; x 7 handler tables (user class, date, tuple, str, bool, user+date, unrelated class) x contexts x "
    "{default names, names from Config, per-call names overriding Config} with decoy attributes under the names that must not be consulted; x 6 unsupported "
    "field value kinds; serialisation-method naming variants x contexts; config-history: every sequence of <=4 (thorough <=5) events over {dump, add/remove a "
    "handler, Config.copy(), dump} on one Config, each dump compared with the handler table in force; every case non-trivial",
    "thorough_note": "thorough: the same enumeration over every generated class hierarchy of depth 0-1 (about 150 specs) instead of 10 representatives", "bounds": {"quick": {"fields": "<=3", "contexts": 6}, "thorough": {"fields": "<=3", "contexts": 6}},
    "assumptions": [
        "ignore lists name attributes by their real (mangled) names",
        "a non-ignored field whose value equals an ignored name is dropped by the library; the property is silent about it and it is not asserted",
    ],
}


def replay(case):
    c = eval(case["case"], {"__builtins__": {}}, {})
    if case["leg"] == "request-forms":
        return check_forms(c).viols
    if case["leg"] == "several-beans":
        return check_aliasing(c).viols
    if case["leg"] == "entry-points":
        return check_entry(c).viols
    if case["leg"] == "method-name":
        return check_ser(c).viols
    if case["leg"] == "rpc-method-name":
        return check_rpc_ser(c).viols
    if case["leg"] == "config-history":
        return check_history(c).viols
    return run_case(c).viols
