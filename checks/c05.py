"""C05 - failures get the standard error codes and rejected requests run nothing.

E3: malformed bodies (judged by an independent RFC 8259 recogniser),
translator-rejected payloads, structurally invalid objects, method names
against function and instance registries, arities vs argument lists/maps and
raised exception classes/messages, each against the reference server model;
single cases are also driven through a loopback ServerProxy to check the
ProtocolError code surfaced by the client.
"""
import itertools
import json

import jsonrpclib
from jsonrpclib import jsonrpc as J

from mc import bodies as B
from mc.bodies import ABSENT, obj
from mc.core import Out, drive
from mc.loop import _Base
from mc.ref import server as ref

from checks import _server_common as sc
from checks import c02

PROPS = ("C05",)

# ---------------------------------------------------------------------------
# worlds with the extra registries this check needs

def make_sigs(log):
    """The nine signatures, as plain (undecorated) functions that record their invocation."""
    def s0():
        log.append(("s0", [], {}))
        return "s0"

    def s1(a):
        log.append(("s1", [a], {}))
        return "s1"

    def s2(a, b):
        log.append(("s2", [a, b], {}))
        return "s2"

    def s2d(a, b=1):
        log.append(("s2d", [a, b], {}))
        return "s2d"

    def sv(*a):
        log.append(("sv", list(a), {}))
        return "sv"

    def sk(**k):
        log.append(("sk", [], dict(k)))
        return "sk"

    def skw(a, *, k):
        log.append(("skw", [a], {"k": k}))
        return "skw"

    def sr(a, *r, **k):
        log.append(("sr", [a] + list(r), dict(k)))
        return "sr"

    def spos(a, /):
        log.append(("spos", [a], {}))
        return "spos"

    return {"s0": s0, "s1": s1, "s2": s2, "s2d": s2d, "sv": sv, "sk": sk, "skw": skw, "sr": sr, "spos": spos}


SIGS = list(make_sigs([]))


class UserError(Exception):
    pass


EXC = [ValueError, KeyError, RuntimeError, ZeroDivisionError, OSError, LookupError, AttributeError, UnicodeError,
       AssertionError, StopIteration, UserError, TypeError, IndexError, NotImplementedError]
MSGS = ["", "boom", "é€", "a: b | c", "%s {0}", "m" * 300 + "-tail", "a long message, " * 300 + "end"]

_W = {}


def world(key):
    w = _W.get(key)
    if w is not None:
        return w
    version, use_jsonclass, dispatch, instance = key
    w = ref.World(version=version, use_jsonclass=use_jsonclass, dispatch=dispatch, instance=instance)
    log = w.log

    def reg(name, fn):
        w.funcs[name] = fn
        w.d.register_function(fn, name)

    for name, fn in make_sigs(log).items():
        reg(name, fn)
    for ci, cls in enumerate(EXC):
        for mi, msg in enumerate(MSGS):
            reg("x%d_%d" % (ci, mi), _raiser("x%d_%d" % (ci, mi), cls, msg, log))
    _W[key] = w
    return w


def _raiser(name, cls, msg, log):
    def raiser():
        log.append((name, [], {}))
        raise cls(msg)

    return raiser


def evaluate(case):
    if case[0] == "SEQ":
        out = Out(cls="sequence")
        labels = []
        for step, sub in enumerate(case[1]):
            o = evaluate(sub)
            labels.append(o.cls)
            for sig, detail in o.viols:
                out.bad(sig, "step %d of a %d-request history over several dispatchers: %s" % (step, len(case[1]), detail))
        out.cls = "|".join(sorted(set(l for l in labels if l)))[:120]
        return out
    key, body = case
    w = world(key)
    viols, label, in_domain = ref.evaluate_body(w, body)
    out = Out(cls=label, nontrivial=in_domain)
    for prop, sig, detail in viols:
        if prop == "HARNESS":
            raise AssertionError(detail)
        if prop in PROPS:
            out.bad(sig, detail)
    return out


W_DEFAULT = [(2.0, True, "default", None), (1.0, True, "default", None)]
W_INST = [(2.0, True, "default", "plain"), (1.0, False, "default", "plain")]
W_OTHER = (2.0, True, "default", "other")

# ---------------------------------------------------------------------------
# (i) malformed bodies, (ii) structurally invalid objects


def cases_malformed(tier):
    for w, body in c02.cases_corrupt(tier):
        yield (w, body)


def cases_malformed_http(tier):
    """Malformed bodies as bytes through the real HTTP handler (where the byte-to-text conversion happens)."""
    seen = set()
    for t in list(B.NONJSON) + [pre + s for pre in ("\ufeff", "\ufeff\ufeff", "\u200b", "\x00", "\ufffe", "\u00a0") for s in (B.SEEDS[0], "[" + B.SEEDS[1] + "]", B.SEEDS[3])]:
        if t in seen:
            continue
        seen.add(t)
        try:
            t.encode("utf-8")
        except UnicodeEncodeError:
            continue
        for w in W_DEFAULT + W_INST[:1]:
            yield (w, t)


def check_malformed_http(case):
    from mc import httpdrive
    from mc.ref import rfc8259

    key, body = case
    w = world(key)
    out = Out(cls="malformed-http")
    if rfc8259.is_json_text(body):
        out.nontrivial = False
        return out
    del w.log[:]
    try:
        status, headers, reply = httpdrive.post(w.d, body.encode("utf-8"))
    except Exception as ex:
        return out.bad("C05/malformed-body/http-handler-raises-%s" % type(ex).__name__, "POST %r raised %r" % (body, ex))
    if w.log:
        out.bad("C05/rejected-request-ran-something", "POST of the malformed body %r invoked %r" % (body, w.log))
    try:
        r = json.loads(reply.decode("utf-8"))
    except ValueError:
        r = None
    codes = (-32700, -32600) if body.strip() == "" else (-32700,)
    if not (status == 200 and isinstance(r, dict) and isinstance(r.get("error"), dict) and r["error"].get("code") in codes and r.get("id") is None):
        out.bad("C05/malformed-body-not-single-32700", "POST of the malformed body %r answered status %s %r" % (body, status, reply[:300]))
    return out


def cases_invalid(tier):
    for j, i, m, p in itertools.product(B.JSONRPC, [ABSENT, None, 0, "a", [1]], B.METHODS, B.PARAMS):
        body = B.dumps(obj(j, i, m, p))
        for w in W_DEFAULT:
            yield (w, body)
    for t in B.TOPLEVEL:
        for w in W_DEFAULT + W_INST:
            yield (w, B.dumps(t))


# ---------------------------------------------------------------------------
# translator-rejected payloads -> single -32700, nothing runs

# descriptors the library legitimately accepts (extra list members are ignored) are not "rejected"
ACCEPTED = (["decimal.Decimal", ["1.5"]], ["mc.ref.beans.Plain", []], ["mc.ref.beans.Plain", {}], ["decimal.Decimal", ["1.5"], "extra"],
            ["builtins.int", ["f" * 5000, 16]], ["builtins.int", ["7"]])
REJECTED = [d for d in c02.DESCRIPTORS if d not in ACCEPTED]


def cases_translator(tier):
    for d in REJECTED:
        x = {"__jsonclass__": d}
        places = [
            {"jsonrpc": "2.0", "method": "f", "params": [x], "id": 1},
            {"jsonrpc": "2.0", "method": "f", "params": {"x": x}, "id": 1},
            {"jsonrpc": "2.0", "method": "f", "params": [[{"k": x}]], "id": 1},
            {"jsonrpc": "2.0", "method": "f", "params": [1], "id": x},
            {"method": "f", "params": [x], "id": 2},
            {"jsonrpc": "2.0", "method": "f", "params": [x]},
            [{"jsonrpc": "2.0", "method": "f", "params": [1], "id": 1}, {"jsonrpc": "2.0", "method": "f", "params": [x], "id": 2}],
            [{"jsonrpc": "2.0", "method": "f", "params": [{"__jsonclass__": ["mc.ref.beans.Plain", []], "z": x}], "id": 1}],
            {"jsonrpc": "2.0", "method": "f", "params": [{"__jsonclass__": ["mc.ref.beans.Plain", []], "items": [x]}], "id": 1},
            {"jsonrpc": "2.0", "method": "f", "params": [{"__jsonclass__": ["mc.ref.beans.Plain", []], "items": [[1, {"k": [x]}]]}], "id": 1},
            {"jsonrpc": "2.0", "method": "f", "params": [{"__jsonclass__": ["mc.ref.beans.Plain", []], "d": {"k": {"__jsonclass__": ["mc.ref.beans.Plain", []], "l": [0, x]}}}], "id": 1},
            {"jsonrpc": "2.0", "method": "f", "params": {"p": ({"__jsonclass__": ["decimal.Decimal", ["1"]], "extra": [[x]]})}, "id": 1},
        ]
        for p in places:
            for w in W_DEFAULT:
                yield (w, B.dumps(p))


def check_translator(case):
    key, body = case
    w = world(key)
    out = Out(cls="translator-rejected")
    try:
        reply = w.run(body)
    except Exception as ex:
        return out.bad("C05/translator-rejected/raises", "body %r raised %r" % (body, ex))
    if w.log:
        out.bad("C05/rejected-request-ran-something", "body %r rejected by the translator, yet invoked %r" % (body, w.log))
    try:
        r = json.loads(reply)
    except ValueError:
        return out.bad("C05/malformed-body-not-single-32700", "body %r -> reply %r" % (body, reply))
    if not isinstance(r, dict) or not isinstance(r.get("error"), dict) or r["error"].get("code") != -32700:
        return out.bad("C05/translator-rejected/not-32700", "body %r -> reply %r, expected a single -32700 error" % (body, reply))
    if r.get("id") is not None:
        out.bad("C05/translator-rejected/id-not-null", "body %r -> reply %r" % (body, reply))
    return out


# ---------------------------------------------------------------------------
# (iii) method names vs registries

SEGMENTS = ["pub", "sub", "inner", "leaf", "deep", "_priv", "_hid", "__class__", "__init__", "__dict__", "attr", "data", ""]
EXTRA_NAMES = ["f", "ns.f", "_under", "ns", "ns.g", "f.x", "pub.__self__", "pub.__func__", "pub.__call__", "sub.deep.__call__",
               "sub.inner.leaf", "sub.inner.leaf.__name__", ".", "..", "pub.", ".pub", "é", "nosuch", "sub._hid", "_priv.x",
               "__class__.__name__", "sub.__class__", "_log", "sub._log.append", "_log.append", "_log.clear"]


def method_names(maxseg=3):
    seen = set()
    for n in EXTRA_NAMES:
        seen.add(n)
        yield n
    for k in range(1, maxseg + 1):
        for combo in itertools.product(SEGMENTS, repeat=k):
            n = ".".join(combo)
            if n and n not in seen:
                seen.add(n)
                yield n


def cases_names(tier):
    """One case = a short history on several dispatchers living in the same process (so that state shared between
    dispatchers, e.g. a class-level cache, shows): the name on two dispatchers with the full instance, on one
    without instance, then on a dispatcher whose instance has other attributes, and back."""
    for n in method_names(4 if tier == "thorough" else 3):
        if n.count(".") == 3 and any(seg in ("", "__init__", "__dict__", "data", "attr") for seg in n.split(".")[:2]):
            continue  # 4-segment paths: the first two segments range over the 8 segments that can lead somewhere
        if tier == "quick" and n.count(".") == 2 and n not in EXTRA_NAMES and hash_mod(n) % 3:
            continue
        for params in ([], [1]):
            seq = [(w, B.dumps(obj("2.0", 1, n, params))) for w in W_INST + W_DEFAULT[:1]]
            seq.append((W_INST[0], B.dumps(obj(ABSENT, 1, n, params))))
            seq.append((W_INST[0], B.dumps(obj("2.0", ABSENT, n, params))))
            seq.append((W_OTHER, B.dumps(obj("2.0", 1, n, params))))
            seq.append((W_OTHER, B.dumps(obj("2.0", 2, "only_here", params))))
            seq.append((W_INST[0], B.dumps(obj("2.0", 3, "only_here", params))))
            seq.append((W_INST[1], B.dumps(obj("2.0", 4, n, params))))
            yield ("SEQ", tuple(seq))


# registrations that change between two requests to one dispatcher: every request is resolved against the current registry

MUTATIONS = ["swap-instance", "drop-instance-attribute", "add-function", "remove-function", "swap-back", "rebind-instance-attribute"]
MUT_NAMES = ["pub", "sub.deep", "sub.inner.leaf", "only_here", "f", "pair", "nosuch", "attr", "ns.f"]


def cases_mutations(tier):
    for version in (2.0, 1.0):
        for n in MUT_NAMES:
            for k in (1, 2):
                for muts in itertools.product(range(len(MUTATIONS)), repeat=k):
                    yield ("MUT", version, n, muts)


def check_mutations(case):
    _, version, name, muts = case
    w = ref.World(version=version, use_jsonclass=True, dispatch="default", instance="plain")
    out = Out(cls="registry-history")
    first = w.instance

    def step(label):
        for n in (name, "only_here", "pub", "sub.deep"):
            viols, lab, dom = ref.evaluate_body(w, B.dumps(obj("2.0", 1, n, [])))
            for prop, sig, detail in viols:
                if prop in PROPS:
                    out.bad(sig + "/after-registry-change" if label else sig, "%s, %s: %s" % (case, label or "initially", detail))

    step("")
    for mi in muts:
        m = MUTATIONS[mi]
        if m == "swap-instance":
            w.instance = ref.OtherInst(w.log)
            w.d.register_instance(w.instance)
        elif m == "swap-back":
            w.instance = first
            w.d.register_instance(first)
        elif m == "drop-instance-attribute":
            if isinstance(w.instance, ref.Inst) and hasattr(w.instance, "sub"):
                del w.instance.sub
        elif m == "rebind-instance-attribute":
            if isinstance(w.instance, ref.Inst):
                w.instance.sub = ref._SubB(w.log)
        elif m == "add-function":
            def added(*a):
                w.log.append((name, list(a), {}))
                return "ADDED"
            w.funcs[name] = added
            w.d.register_function(added, name)
        elif m == "remove-function":
            if name in w.funcs:
                del w.funcs[name]
                del w.d.funcs[name]
        step("after %s" % m)
        if out.viols:
            break
    if hasattr(first, "sub") is False:
        pass
    return out


def hash_mod(s):
    return sum(ord(c) * (i + 1) for i, c in enumerate(s))


# ---------------------------------------------------------------------------
# (iv) arities


def arg_shapes():
    vals = [1, None]
    for n in range(4):
        yield [1] * n
    yield [None]
    keys = ["a", "b", "k", "z"]
    for r in range(4):
        for combo in itertools.combinations(keys, r):
            yield {k: 1 for k in combo}
    yield {"": 1}
    yield {"a b": 1}


def cases_arity(tier):
    for name in SIGS:
        for params in arg_shapes():
            for w in W_DEFAULT:
                yield (w, B.dumps(obj("2.0", "q", name, params)))
            yield (W_DEFAULT[0], B.dumps(obj(ABSENT, "q", name, params)))
            yield (W_DEFAULT[0], B.dumps([obj("2.0", 1, "f"), obj("2.0", "q", name, params)]))


# ---------------------------------------------------------------------------
# (v) raised exceptions


def cases_exceptions(tier):
    for ci in range(len(EXC)):
        for mi in range(len(MSGS)):
            name = "x%d_%d" % (ci, mi)
            for w in W_DEFAULT:
                yield (w, B.dumps(obj("2.0", 5, name)))
                yield (w, B.dumps(obj(ABSENT, 5, name, [])))
            yield (W_DEFAULT[0], B.dumps([obj("2.0", 1, "f"), obj("2.0", 5, name), obj("2.0", ABSENT, name)]))
    # the exception comes from a dispatch function given to the dispatcher / from the registered instance's own _dispatch
    for w in ((2.0, True, "custom-raise", None), (1.0, True, "custom-raise", None), (2.0, True, "default", "dispatching"), (1.0, False, "default", "dispatching")):
        for m, p in (("anything", []), ("pair", [1, 2]), ("a.b", {"k": 1}), ("f", [])):
            if m == "f" and w[3] == "dispatching":
                continue  # registered functions win over the instance
            yield (w, B.dumps(obj("2.0", 5, m, p)))
            yield (w, B.dumps(obj(ABSENT, 6, m, p)))
            yield (w, B.dumps([obj("2.0", 7, m, p), obj("2.0", ABSENT, m, p)]))


# ---------------------------------------------------------------------------
# client side: the ProtocolError carries the code


class SubstTransport(_Base):
    """Loopback transport that sends `body` instead of what the proxy built (to reach -32700/-32600)."""

    def __init__(self, w, body=None):
        _Base.__init__(self)
        self.w = w
        self.body = body

    def request(self, host, handler, request_body, verbose=0):
        return self.w.run(self.body if self.body is not None else request_body)


def cases_client(tier):
    calls = [("nosuch", [1], -32601), ("_priv", [], -32601), ("sub._hid", [], -32601), ("pair", [1], -32602),
             ("pair", {"a": 1, "z": 2}, -32602), ("s0", [1], -32602), ("boom", [], -32603), ("x1_1", [], -32603), ("x10_2", [], -32603)]
    for m, p, code in calls:
        for version in (1.0, 2.0):
            for sv in (2.0, 1.0):
                yield ("call", m, p, code, version, sv, None)
    for body, code in (("{", -32700), ("[1,", -32700), ('{"jsonrpc":"2.0","method":5,"id":1}', -32600), ("5", -32600),
                       ('{"jsonrpc":"2.0","method":"f","params":7,"id":1}', -32600), ('{"__jsonclass__":["bad name!",[]]}', -32700)):
        for sv in (2.0, 1.0):
            yield ("subst", "f", [], code, 2.0, sv, body)


def check_client(case):
    how, m, p, code, version, sv, body = case
    w = world((sv, True, "default", "plain"))
    out = Out(cls="client:%s" % code)
    t = SubstTransport(w, body)
    proxy = jsonrpclib.ServerProxy("http://h/", transport=t, version=version)
    try:
        meth = proxy
        for seg in m.split("."):
            meth = getattr(meth, seg)
        r = meth(*p) if isinstance(p, list) else meth(**p)
    except J.ProtocolError as ex:
        a = ex.args[0] if ex.args else None
        if not (isinstance(a, tuple) and len(a) >= 2 and a[0] == code):
            out.bad("C05/client/protocol-error-code", "%r raised ProtocolError%r, expected code %s" % (case, ex.args, code))
        if type(ex) is not J.ProtocolError:
            out.bad("C05/client/not-plain-ProtocolError", "%r raised %s" % (case, type(ex).__name__))
        return out
    except Exception as ex:
        return out.bad("C05/client/raises-%s" % type(ex).__name__, "%r raised %r" % (case, ex))
    return out.bad("C05/client/error-not-raised", "%r returned %r" % (case, r))


def leg(name, casegen, ev=evaluate):
    def run(part, tier, shard, nshards):
        drive(part, name, casegen(tier), shard, nshards, ev)
    return run


LEGS = {
    "malformed": leg("malformed", cases_malformed),
    "malformed-http": leg("malformed-http", cases_malformed_http, check_malformed_http),
    "invalid": leg("invalid", cases_invalid),
    "translator": leg("translator", cases_translator, check_translator),
    "names": leg("names", cases_names),
    "registry-history": leg("registry-history", cases_mutations, check_mutations),
    "arity": leg("arity", cases_arity),
    "exceptions": leg("exceptions", cases_exceptions),
    "client": leg("client", cases_client, check_client),
}

META = {
    "technique": "bounded-exhaustive enumeration of failing requests against a reference error-code model (independent RFC 8259 recogniser, "
    "inspect.signature binding, attribute-path resolution)",
    "rule": "malformed: truncations/corruptions of seed requests + non-JSON texts; malformed-http: the non-JSON texts and valid requests behind a byte order "
    "mark / zero-width space / NUL / U+FFFE / no-break space as bytes through the real HTTP handler; invalid: jsonrpc(6) x id(5) x method(11) x params(13); "
    "translator: 24 rejected descriptor shapes x 8 placements; names: every dotted path of <=3 segments over a 13-segment alphabet (quick: a "
    "third of the 3-segment paths) against function table and instance; arity: 9 signatures x 21 argument shapes; registry-history: every sequence of <=2 registry changes (instance "
    "replaced / restored, attribute removed, function added / removed) with 8 names resolved before and after each change on one dispatcher; exceptions: 14 "
    "classes x 7 messages (incl. 306 and 4803 characters), and exceptions raised by a custom dispatch function and by an instance's own _dispatch; client: the codes surfaced as ProtocolError through a loopback ServerProxy; non-trivial = inside the property's domain",
    "bounds": {"quick": {"segments": 3, "seeds": 6}, "thorough": {"segments": 4, "seeds": 12}},
    "assumptions": [
        "an attribute path that exists but is not callable may be answered -32601 or -32602 (the property fixes neither)",
        "the empty body may be answered -32600 or -32700",
        "exception messages are single-line (property domain)",
    ],
}


def replay(case):
    c = eval(case["case"], {"__builtins__": {}}, {})
    _W.clear()
    if case["leg"] == "translator":
        return check_translator(c).viols
    if case["leg"] == "malformed-http":
        return check_malformed_http(c).viols
    if case["leg"] == "registry-history":
        return check_mutations(c).viols
    if case["leg"] == "client":
        return check_client(c).viols
    return evaluate(c).viols
