"""C10 - pool concurrency is bounded by max_threads yet grows to it when work waits.

E3 part: every (max_threads, min_threads, queue_size) combination of a value
alphabet is given to the constructor and compared with the documented
rejection / clamping rule.  E1 part: the shared pool harness with workloads of
independent, failing, gated and mutually dependent (chain) tasks; monitors
bound the number of executing bodies and of workers serving the queue, require
min_threads workers between start() and stop(), and progress of dependent
tasks.
"""
import itertools

import jsonrpclib.threadpool as tp

from checks import _pool as P
from mc.core import Out, drive

PROP = "C10"
CHAINS = ["P30-stop-while-busy-restart-chain", "P25-task-then-chain", "P26-two-tasks-then-chain", "P27-chain-then-task-restart", "P16-chain-after-start", "P17-chain-before-start", "P18-chain-after-restart", "P23-chain3", "P11-saturate",
          "P7-more-prequeued-than-workers", "P4-gated-then-plain", "P12-bounded-queue", "P24-enq-during-idle-retire",
          "P3-idle-timeout-then-enqueue", "P9-start-races-submitter", "P2-two-submitters"]
HEAVY = ["P19-chain-with-second-submitter", "P22-backlog-then-chain"]

VALS = [-1, 0, 1, 2, 3, 0.1, 2.9, "2", "abc", None, True, [], 10 ** 3]
QVALS = [-1, 0, 1, 0.1, "abc", None]


def ctor_cases(tier):
    return itertools.product(VALS, VALS, QVALS)


def to_int(v):
    try:
        return int(v)
    except (TypeError, ValueError):
        return None


def check_ctor(case):
    mx, mn, qs = case
    out = Out()
    imx, imn, iqs = to_int(mx), to_int(mn), to_int(qs)
    reject = imx is None or imx < 1 or imn is None
    try:
        pool = tp.ThreadPool(mx, mn, queue_size=qs)
    except ValueError:
        out.cls = "rejected"
        if not reject:
            out.bad("C10/constructor-rejects-valid-arguments", "ThreadPool(%r, %r, queue_size=%r) raised ValueError" % case)
        return out
    except Exception as ex:
        out.cls = "raises-other"
        return out.bad("C10/constructor-raises-%s" % type(ex).__name__, "ThreadPool(%r, %r, queue_size=%r) raised %r" % (case + (ex,)))
    out.cls = "accepted"
    if reject:
        return out.bad("C10/constructor-accepts-invalid-arguments", "ThreadPool(%r, %r, queue_size=%r) was accepted" % case)
    want_min = min(max(imn, 0), imx)
    if not hasattr(pool, "_max_threads") or not hasattr(pool, "_min_threads") or not hasattr(getattr(pool, "_queue", None), "maxsize"):
        out.cls = "accepted-unobservable"  # the documented attributes are gone: nothing to compare (the schedule legs still bound the behaviour)
        return out
    if pool._max_threads != imx or pool._min_threads != want_min:
        out.bad("C10/constructor-clamping", "ThreadPool(%r, %r) -> max=%r min=%r, expected max=%d min=%d" % (mx, mn, pool._max_threads, pool._min_threads, imx, want_min))
    bounded = iqs is not None and iqs > 0
    if (pool._queue.maxsize > 0) != bounded:
        out.bad("C10/constructor-queue-size", "queue_size=%r -> maxsize %r" % (qs, pool._queue.maxsize))
    return out


def leg_ctor(part, tier, shard, nshards):
    drive(part, "constructor", ctor_cases(tier), shard, nshards, check_ctor)


def harnesses(tier):
    def has_two_enq(prog):
        return sum(1 for o in prog if o[0] in ("enq", "chain")) >= 2

    if tier == "quick":
        h = P.curated_h(CHAINS + HEAVY, [(1, 0), (1, 1), (2, 0), (2, 1)], "sync")
        h += P.curated_h(["P16-chain-after-start", "P23-chain3", "P11-saturate", "P9-start-races-submitter", "P2-two-submitters"],
                         [(2, 2), (3, 0), (3, 1)], "sync")
        h += P.curated_h(["P16-chain-after-start", "P17-chain-before-start", "P9-start-races-submitter", "P2-two-submitters",
                          "P24-enq-during-idle-retire"], [(1, 1), (2, 0), (2, 1)], "line")
        h += P.generated_h(3, [(1, 1), (2, 0), (2, 2)], "sync", keep=has_two_enq)
    else:
        sizes = [(1, 0), (1, 1), (2, 0), (2, 1), (2, 2), (3, 0), (3, 1), (3, 3)]
        h = P.curated_h(CHAINS + HEAVY, sizes, "sync")
        h += P.curated_h(CHAINS + HEAVY, [(1, 1), (2, 0), (2, 1), (3, 1)], "line")
        h += P.generated_h(4, [(1, 1), (2, 0), (2, 1), (3, 0)], "sync", keep=has_two_enq)
    h += P.scale_h(tier, ["S11-failing-partial-then-chain", "S5-bounded-queue-six", "S6-chain4", "S8-backlog-behind-gate", "S1-twelve-tasks"])  # many tasks / restarts / larger pools, first ladder levels
    h += P.fault_h(tier)  # a worker-thread creation that fails
    return h


BUDGET = {"quick": 1200, "thorough": 30000}


def leg(part, tier, shard, nshards):
    P.run_pool_leg(part, PROP, harnesses(tier), BUDGET[tier], global_budget={"quick": 150000, "thorough": 1200000}[tier])


LEGS = {"constructor": leg_ctor, "schedules": leg}

META = {
    "engine": "E1-schedule-explorer+E3-small-scope-enumeration",
    "serial_legs": ("schedules",),
    "technique": "stateless model checking of the real ThreadPool (schedule enumeration with preemption and timer-deviation bounds) plus exhaustive "
    "enumeration of constructor arguments",
    "rule": "constructor: 13 x 13 x 6 argument values; schedules: curated workloads of gated and mutually dependent (chain) tasks, saturation, backlog "
    "before start, restart, idle-timeout expiry, two submitters, and every generated program of length <=3 (quick) / <=4 (thorough) with at least two "
    "enqueues, x pool sizes, every schedule with <=K preemptions and <=T early timer firings; non-trivial = execution with a choice point / constructor "
    "call whose outcome the rule defines",
    "bounds": {"quick": {"levels": "iterative (K,T) ladder (0,0) (1,0) (1,1) (2,1) (3,1) (3,2) (4,2) per harness while the predicted size of the next level is <= 1200 executions; deepest completed level per harness in notes.completed_bounds", "sizes": "(1,0) (1,1) (2,0) (2,1) (2,2) (3,0) (3,1)"},
               "thorough": {"levels": "same ladder, predicted size <= 60000", "sizes": "all eight"}},
    "assumptions": [
        "a worker counts as serving the queue from its creation to its last queue read (upper bound) / to its termination (lower bound, lenient)",
        "thread switches only at synchronisation operations (line boundaries of threadpool.py in the line harnesses)",
    ],
}


def replay(case):
    if case.get("leg") == "constructor":
        return check_ctor(eval(case["case"], {"__builtins__": {}}, {})).viols
    return P.replay_pool(PROP, case)
