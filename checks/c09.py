"""C09 - the thread pool runs every accepted task exactly once and reports it faithfully.

E1: real ThreadPool under the controlled scheduler; controller/submitter
programs are enumerated (all well-typed programs up to a length bound plus
curated ones aimed at windows visible in the code); every schedule within the
preemption / timer-deviation bounds is executed; monitors check execution
counts, argument and result identity, FIFO order with one worker and that no
task starts after stop() returned.
"""
from checks import _pool as P

PROP = "C09"
ALL = sorted(n for n in P.CURATED if "SystemExit" not in n and n.startswith("P"))  # those two judge only termination (C11)
HEAVY = ("P19-chain-with-second-submitter", "P22-backlog-then-chain")


LINE = ["P1-prequeued-then-start", "P3-idle-timeout-then-enqueue", "P5-between-stop-and-restart", "P6-stop-races-enqueue",
        "P9-start-races-submitter", "P8-failing-task", "P2-two-submitters", "P24-enq-during-idle-retire"]


def harnesses(tier):
    if tier == "quick":
        h = P.curated_h(ALL, [(1, 0), (1, 1), (2, 0), (2, 1)], "sync")
        h += P.generated_h(3, [(1, 0), (2, 0), (2, 1)], "sync")
        h += P.curated_h(LINE, [(1, 0), (2, 1)], "line")
    else:
        sizes = [(1, 0), (1, 1), (2, 0), (2, 1), (2, 2), (3, 0), (3, 1), (3, 3)]
        h = P.curated_h(ALL, sizes, "sync")
        h += P.curated_h(["P12-bounded-queue", "P2-two-submitters", "P11-saturate"], [(1, 0), (2, 1)], "sync", qsize=1)
        h += P.generated_h(4, [(1, 0), (2, 0), (2, 1)], "sync")
        h += P.generated_h(3, [(1, 1), (3, 1)], "sync")
        h += P.curated_h(ALL, [(1, 0), (1, 1), (2, 0), (2, 1)], "line")
    h += P.scale_h(tier, ["S10-callable-kinds", "S1-twelve-tasks", "S2-ten-prequeued", "S4-two-submitters-five-each", "S8-backlog-behind-gate"])  # many tasks / restarts / larger pools, first ladder levels
    h += P.fault_h(tier)  # a worker-thread creation that fails
    return h


BUDGET = {"quick": 1500, "thorough": 30000}


def leg(part, tier, shard, nshards):
    P.run_pool_leg(part, PROP, harnesses(tier), BUDGET[tier], global_budget={"quick": 250000, "thorough": 1500000}[tier])


LEGS = {"schedules": leg}

META = {
    "engine": "E1-schedule-explorer",
    "serial_legs": ("schedules",),
    "technique": "stateless model checking of the real ThreadPool under a controlled scheduler: exhaustive schedule enumeration with "
    "iterative preemption bounding and bounded early timer firing, over enumerated client programs",
    "rule": "harness = (program, pool size (max,min), queue size, granularity); programs: every well-typed controller program of length <=3 "
    "(quick) / <=4 (thorough) over {start, stop, enqueue returning/raising/gated, open gate, result, join, join(t), sleep past the idle timeout} "
    "plus 24 curated two-thread programs; every schedule with <=K preemptions and <=T early timer firings (K,T in the harness label) at "
    "synchronisation-operation granularity, and at source-line granularity of threadpool.py for the programs aimed at unsynchronised code; "
    "plus programs in which one creation of a worker thread fails with RuntimeError (inside start(), also after a restart); plus 'scale' programs (12 tasks, 10 pre-queued, 4 restarts, two submitters x 5, bounded queue x 6, 4-chain, idle cycles, backlog behind a gate, restart with backlog) on pools up to (5,0)/(6,3) at the first ladder levels; "
    "non-trivial = execution with at least one choice point; distinct by (harness, choice sequence)",
    "bounds": {"quick": {"program_length": 3, "levels": "iterative (K,T) in (0,0) (1,0) (1,1) (2,1) (3,1) (3,2) (4,2): next level while its predicted size (last level x observed growth) is <= 1500 executions; deepest completed level per harness in notes.completed_bounds", "sizes": "(1,0) (1,1) (2,0) (2,1)"},
               "thorough": {"program_length": 4, "levels": "same ladder, predicted size <= 60000 executions", "sizes": "all eight (max,min) with max<=3"}},
    "assumptions": [
        "thread switches happen only at synchronisation operations (and at line boundaries of threadpool.py in the line-granularity harnesses)",
        "threading and queue are the shim implementations (stdlib queue.py source over shim threading, virtual clock)",
        "a task whose enqueue overlaps or precedes a stop() may legitimately be discarded",
    ],
}


def replay(case):
    return P.replay_pool(PROP, case)
