"""C03 - responses echo the request id; batches answer one-to-one and in order.

E3: entry kind x id value x form, alone and in every batch of length <=3
(quick) / <=4 (thorough) over a 24-entry alphabet, x server version x dispatch
mode, against the reference server model (id compared type-exactly).
"""
import itertools

from mc import bodies as B
from mc.bodies import ABSENT, obj

from checks import _server_common as sc

PROPS = ("C03",)

KINDS = {
    # kind -> (method, params)
    "ok": ("pair", [1, 2]),
    "raise": ("boom", []),
    "unknown": ("nosuch", [1]),
    "arity": ("pair", [1]),
    "badser": ("badser", []),
    "falsy": ("ret1", []),
    "retfault": ("retfault", []),
}
IDS = [i for i in B.IDS if i is not ABSENT]
WORLDS = [(v, True, d, inst) for v in (2.0, 1.0) for d, inst in (
    ("default", None), ("custom-ok", None), ("custom-raise", None), ("default", "dispatching"))]


def entry(kind, rid, form):
    j = "2.0" if form == "2.0" else ABSENT
    if kind == "nondict":
        return rid if not isinstance(rid, dict) else [rid]
    if kind == "nomethod":
        return obj(j, rid)
    if kind == "badparams":
        return obj(j, rid, "pair", 5)
    m, p = KINDS[kind]
    return obj(j, rid, m, p)


def cases_single(tier):
    for kind in list(KINDS) + ["nomethod", "badparams"]:
        for rid in IDS + [ABSENT]:
            for form in ("2.0", "1.0"):
                body = B.dumps(entry(kind, rid, form))
                for w in WORLDS:
                    yield (w, body)
    for t in B.TOPLEVEL:
        for w in WORLDS:
            yield (w, B.dumps(t))


# 24-entry batch alphabet: kinds with pairwise different ids covering every id type
ALPHA = [
    entry("ok", 1, "2.0"), entry("ok", 0, "2.0"), entry("ok", "a", "1.0"), entry("ok", False, "2.0"),
    entry("ok", [1], "2.0"), entry("ok", {"a": 1}, "2.0"), entry("ok", 0.0, "1.0"), entry("ok", 2 ** 53, "2.0"),
    entry("raise", 2, "2.0"), entry("raise", -1, "1.0"), entry("unknown", 1.5, "2.0"), entry("unknown", "0", "1.0"),
    entry("arity", " ", "2.0"), entry("badser", True, "2.0"), entry("falsy", [], "2.0"), entry("falsy", {}, "1.0"),
    entry("ok", ABSENT, "2.0"), entry("ok", None, "1.0"), entry("raise", "", "2.0"), entry("unknown", ABSENT, "2.0"),
    5, {}, entry("nomethod", 9, "2.0"), entry("badparams", "bp", "1.0"),
]
QUICK_ALPHA = [0, 1, 2, 3, 8, 10, 12, 13, 16, 17, 18, 20, 21, 22]


def cases_batch(tier):
    idx = list(range(len(ALPHA)))
    for n in (1, 2, 3):
        for combo in itertools.product(idx, repeat=n):
            body = B.dumps([ALPHA[i] for i in combo])
            ws = WORLDS if n < 3 or tier == "thorough" else (WORLDS[0], WORLDS[3], WORLDS[5], WORLDS[6])
            for w in ws:
                yield (w, body)
    if tier == "thorough":
        for combo in itertools.product(idx, repeat=4):
            body = B.dumps([ALPHA[i] for i in combo])
            ws = (WORLDS[0], WORLDS[6]) if all(i in QUICK_ALPHA for i in combo) else (WORLDS[(combo[0] + combo[3]) % len(WORLDS)],)
            for w in ws:
                yield (w, body)


def leg_single(part, tier, shard, nshards):
    sc.body_leg(part, "single", PROPS, cases_single(tier), shard, nshards)


def leg_batch(part, tier, shard, nshards):
    sc.body_leg(part, "batch", PROPS, cases_batch(tier), shard, nshards)


LEGS = {"single": leg_single, "batch": leg_batch}

META = {
    "technique": "bounded-exhaustive enumeration of request entries and batch compositions against a reference server model (type-exact id comparison)",
    "rule": "single: 8 entry kinds x 18 id values (incl. absent) x {1.0,2.0} form; batch: every sequence of length <=3 over a 24-entry alphabet "
    "(thorough: plus length 4 over all 24 entries, one world each) whose ids cover every JSON type; x server version {1.0,2.0} x dispatch in {default, "
    "custom returning, custom raising, instance with raising _dispatch}; every case is non-trivial (each yields at least one id/count obligation)",
    "bounds": {"quick": {"batch_len": 3, "alphabet": 24}, "thorough": {"batch_len": 4, "alphabet": 24}},
    "assumptions": [
        "ids are plain JSON values (no __jsonclass__ descriptors inside ids)",
        "float ids are compared by repr after a JSON round trip",
    ],
}


def replay(case):
    return sc.replay_body(PROPS, case)
