"""C03 - responses echo the request id; batches answer one-to-one and in order.

E3: entry kind x id value x form, alone and in every batch of length <=3
(quick) / <=4 (thorough) over a 24-entry alphabet, x server version x dispatch
mode, against the reference server model (id compared type-exactly).
"""
import itertools

from mc import bodies as B
from mc.bodies import ABSENT, obj

from checks import _server_common as sc

PROPS = ("C03",)

KINDS = {
    # kind -> (method, params)
    "ok": ("pair", [1, 2]),
    "raise": ("boom", []),
    "unknown": ("nosuch", [1]),
    "arity": ("pair", [1]),
    "badser": ("badser", []),
    "falsy": ("ret1", []),
    "retfault": ("retfault", []),
    "cyclic": ("cyclic", []),      # results whose conversion fails: self-referencing, too deep, refused by the JSON serialiser only
    "deepret": ("deepret", []),
    "badkeys": ("badkeys", []),
    "sysexit": ("sysexit", []),  # only sent to worlds with the default dispatch (see cases_single)
}
IDS = [i for i in B.IDS if i is not ABSENT]
UNCONVERTIBLE = [(k, rid, form) for k in ("cyclic", "deepret", "badkeys") for rid, form in ((4, "2.0"), ("u", "1.0"), (0, "2.0"))]
WORLDS = [(v, True, d, inst) for v in (2.0, 1.0) for d, inst in (
    ("default", None), ("custom-ok", None), ("custom-raise", None), ("default", "dispatching"))] + [(2, True, "default", None), (1, True, "custom-ok", None),
                                       (2.0, True, "default+handlers", None), (1.0, True, "custom-ok+handlers", None)]


def entry(kind, rid, form):
    j = "2.0" if form == "2.0" else ABSENT
    if kind == "nondict":
        return rid if not isinstance(rid, dict) else [rid]
    if kind == "nomethod":
        return obj(j, rid)
    if kind == "badparams":
        return obj(j, rid, "pair", 5)
    m, p = KINDS[kind]
    return obj(j, rid, m, p)


def cases_single(tier):
    for kind in list(KINDS) + ["nomethod", "badparams"]:
        for rid in IDS + [ABSENT]:
            for form in ("2.0", "1.0"):
                body = B.dumps(entry(kind, rid, form))
                for w in WORLDS + [(2.0, False, "default", None), (1.0, False, "default", None)]:
                    if kind in ("sysexit", "cyclic", "deepret", "badkeys") and (w[2].split("+")[0] != "default" or w[3] is not None):
                        continue
                    if kind == "badser" and not w[1]:
                        continue
                    yield (w, body)
    for t in B.TOPLEVEL:
        for w in WORLDS:
            yield (w, B.dumps(t))


# 24-entry batch alphabet: kinds with pairwise different ids covering every id type
ALPHA = [
    entry("ok", 1, "2.0"), entry("ok", 0, "2.0"), entry("ok", "a", "1.0"), entry("ok", False, "2.0"),
    entry("ok", [1], "2.0"), entry("ok", {"a": 1}, "2.0"), entry("ok", 0.0, "1.0"), entry("ok", 2 ** 53, "2.0"),
    entry("raise", 2, "2.0"), entry("raise", -1, "1.0"), entry("unknown", 1.5, "2.0"), entry("unknown", "0", "1.0"),
    entry("arity", " ", "2.0"), entry("badser", True, "2.0"), entry("falsy", [], "2.0"), entry("falsy", {}, "1.0"),
    entry("ok", ABSENT, "2.0"), entry("ok", None, "1.0"), entry("raise", "", "2.0"), entry("unknown", ABSENT, "2.0"),
    5, {}, entry("nomethod", 9, "2.0"), entry("badparams", "bp", "1.0"),
]
SYSEXIT = [entry("sysexit", 3, "2.0"), entry("sysexit", "x", "1.0"), entry("sysexit", ABSENT, "2.0")]
QUICK_ALPHA = [0, 1, 2, 3, 8, 10, 12, 13, 16, 17, 18, 20, 21, 22]


def cases_batch(tier):
    idx = list(range(len(ALPHA)))
    for n in (1, 2, 3):
        for combo in itertools.product(idx, repeat=n):
            body = B.dumps([ALPHA[i] for i in combo])
            ws = WORLDS if n < 3 or tier == "thorough" else (WORLDS[0], WORLDS[3], WORLDS[5], WORLDS[6])
            for w in ws:
                yield (w, body)
    # results whose conversion fails, next to ordinary entries, with class translation on and off
    for k, rid, form in UNCONVERTIBLE:
        for i in QUICK_ALPHA:
            for order in (0, 1):
                e = entry(k, rid, form)
                pair = [e, ALPHA[i]] if order else [ALPHA[i], e]
                for w in (WORLDS[0], WORLDS[4], (2.0, False, "default", None), (1.0, False, "default", None)):
                    yield (w, B.dumps(pair))
    # entries whose "jsonrpc" member has an unexpected value (only its presence matters), next to ordinary entries and to each other
    odd = [B.obj(jv, 70 + n, m, pr) for n, jv in enumerate(("1.0", "two", "", 1, True, None, [2], {"v": 2})) for m, pr in (("pair", [1, 2]), ("boom", []))]
    for e in odd:
        for i in QUICK_ALPHA:
            for order in (0, 1):
                pair = [e, ALPHA[i]] if order else [ALPHA[i], e]
                for w in (WORLDS[0], WORLDS[4]):
                    yield (w, B.dumps(pair))
        for w in (WORLDS[0], WORLDS[4]):
            yield (w, B.dumps([odd[0], e, odd[-1]]))
    # a callable leaving through SystemExit, next to ordinary entries (default dispatch only)
    for sx in SYSEXIT:
        for i in QUICK_ALPHA:
            for order in (0, 1):
                pair = [sx, ALPHA[i]] if order else [ALPHA[i], sx]
                for w in (WORLDS[0], WORLDS[4]):
                    yield (w, B.dumps(pair))
    if tier == "thorough":
        for combo in itertools.product(idx, repeat=4):
            body = B.dumps([ALPHA[i] for i in combo])
            ws = (WORLDS[0], WORLDS[6]) if all(i in QUICK_ALPHA for i in combo) else (WORLDS[(combo[0] + combo[3]) % len(WORLDS)],)
            for w in ws:
                yield (w, body)


def leg_single(part, tier, shard, nshards):
    sc.body_leg(part, "single", PROPS, cases_single(tier), shard, nshards)


def leg_batch(part, tier, shard, nshards):
    sc.body_leg(part, "batch", PROPS, cases_batch(tier), shard, nshards)


# -- ids made of unusual code points, through the dispatcher and through the real HTTP handler (bytes on the wire) ----------

EXOTIC = ['"\\ud83d"', '"\\udc00x"', '"\\u0000"', '"\\u2028"', '"\\ufeff"', '"\u00e9"', '"\\u00e9"', '"\U0001F600"', '"\\ud83d\\ude00"', '"\\u007f"', '"\\u0080"',
          '["\\ud83d"]', '{"\\udfff": 1}', '"\u20ac\u00ff"', '"\\""', '"\\\\"', '1e2', '-0.0', '1E400'[:0] or '12345678901234567890']
EX_KINDS = [('"pair"', "[1,2]"), ('"boom"', "[]"), ('"nosuch"', "[]"), ('"pair"', "[1]"), ('"ret1"', "[]")]


def exotic_cases(tier):
    for i in range(len(EXOTIC)):
        for k in range(len(EX_KINDS)):
            for form in (2, 1):
                for w in (0, 4, 5, 7):
                    yield (i, k, form, w, None)
    for i in range(len(EXOTIC)):
        for j in range(len(EXOTIC)):
            yield (i, (i + j) % len(EX_KINDS), 2, 0, j)


def exotic_body(i, k, form, j):
    def one(idtext, kk):
        m, p = EX_KINDS[kk]
        return ('{"jsonrpc":"2.0","method":%s,"params":%s,"id":%s}' if form == 2 else '{"method":%s,"params":%s,"id":%s}') % (m, p, idtext)
    if j is None:
        return one(EXOTIC[i], k)
    return "[%s,%s]" % (one(EXOTIC[i], k), one(EXOTIC[j], (k + 1) % len(EX_KINDS)))


def check_exotic(case):
    import json

    from mc import gen, httpdrive
    from mc.core import Out
    from mc.ref import server as ref

    i, k, form, wi, j = case
    body = exotic_body(i, k, form, j)
    w = sc.world(WORLDS[wi])
    viols, label, in_domain = ref.evaluate_body(w, body)
    out = Out(cls="exotic/" + label, nontrivial=in_domain)
    for prop, sig, detail in viols:
        if prop == "C03":
            out.bad(sig, detail)
    if not in_domain:
        return out
    req = json.loads(body)
    want = [e["id"] for e in (req if isinstance(req, list) else [req])]
    try:
        status, headers, reply = httpdrive.post(w.d, body.encode("utf-8"))
    except Exception as ex:
        return out.bad("C03/http/handler-raises-%s" % type(ex).__name__, "POST %r: the HTTP handler raised %r, no response carries the id" % (body, ex))
    try:
        r = json.loads(reply.decode("utf-8"))
        got = [e.get("id") for e in (r if isinstance(r, list) else [r])]
    except Exception as ex:
        return out.bad("C03/http/reply-unreadable", "POST %r: status %s reply %r (%r)" % (body, status, reply, ex))
    if status != 200 or not gen.same(got, want):
        out.bad("C03/http/ids-differ", "POST %r: status %s, response ids %r, request ids %r" % (body, status, got, want))
    return out


def leg_exotic(part, tier, shard, nshards):
    from mc.core import drive
    drive(part, "exotic-ids", exotic_cases(tier), shard, nshards, check_exotic)


# -- entries whose id is a translated object (class translation on): the other entries of the batch are still answered one-to-one ----

BEAN_IDS = [{"__jsonclass__": ["decimal.Decimal", ["1.5"]]}, {"__jsonclass__": ["mc.ref.beans.Plain", []], "a": 2}, [{"__jsonclass__": ["decimal.Decimal", ["2"]]}]]


def beanid_cases(tier):
    for bi in range(len(BEAN_IDS)):
        for kind in ("ok", "raise", "unknown", "arity", "badser", "retfault"):
            for form in ("2.0", "1.0"):
                for shape in ("first", "last", "middle", "alone"):
                    for wi in (0, 4):
                        yield (bi, kind, form, shape, wi)


def check_beanid(case):
    import json

    from mc import gen
    from mc.core import Out

    bi, kind, form, shape, wi = case
    out = Out(cls="bean-id/%s/%s" % (kind, shape))
    w = sc.world(WORLDS[wi])
    e = entry(kind, BEAN_IDS[bi], form)
    a, b = entry("ok", "before", "2.0"), entry("ok", "after", "1.0")
    batch = {"first": [e, a, b], "last": [a, b, e], "middle": [a, e, b], "alone": [e]}[shape]
    body = B.dumps(batch)
    try:
        reply = w.run(body)
        r = json.loads(reply)
    except Exception as ex:
        return out.bad("C03/bean-id/raises-or-unparsable", "body %r: %r" % (body, ex))
    if not isinstance(r, list) or len(r) != len(batch):
        return out.bad("C03/response-count-or-shape", "body %r (an entry whose id is a translated object): reply %r, expected %d response objects" % (body, reply, len(batch)))
    for pos, (req, resp) in enumerate(zip(batch, r)):
        if req is e:
            continue
        if not isinstance(resp, dict) or not gen.same(resp.get("id"), req["id"]) or "result" not in resp:
            out.bad("C03/id-not-echoed/next-to-an-object-id", "body %r: response #%d is %r" % (body, pos, resp))
    return out


def leg_beanid(part, tier, shard, nshards):
    from mc.core import drive
    drive(part, "object-ids", beanid_cases(tier), shard, nshards, check_beanid)


def leg_scale(part, tier, shard, nshards):
    sc.body_leg(part, "scale", PROPS, sc.scale_cases(tier, [WORLDS[0], WORLDS[5], WORLDS[6], WORLDS[8]]), shard, nshards)


LEGS = {"single": leg_single, "batch": leg_batch, "exotic-ids": leg_exotic, "object-ids": leg_beanid, "scale": leg_scale}

META = {
    "technique": "bounded-exhaustive enumeration of request entries and batch compositions against a reference server model (type-exact id comparison)",
    "rule": "single: 8 entry kinds x 18 id values (incl. absent) x {1.0,2.0} form; batch: every sequence of length <=3 over a 24-entry alphabet "
    "(thorough: plus length 4 over all 24 entries, one world each) whose ids cover every JSON type; x server version {1.0,2.0} x dispatch in {default, "
    "custom returning, custom raising, instance with raising _dispatch}, version given as integer, and configurations with serialisation handlers for "
    "float/str/int (which rewrite result values and must leave ids alone); exotic-ids: 19 ids written with unusual code points (lone and paired surrogates, NUL, U+2028, BOM, raw and escaped non-ASCII, "
    "quote, backslash, exponent and 20-digit numbers) x 5 outcomes x forms x 4 worlds and every pair of them in a batch, through the dispatcher and through "
    "the real HTTP handler (bytes on the wire); odd-markers: entries whose jsonrpc member is a string spelling another version, a number, a boolean, null or a container, next to each ordinary entry and to each other; object-ids: an entry of every outcome kind whose id is a translated object, alone and first / in the middle / last among ordinary calls (the others are answered one-to-one); scale: batches of 1001/1025/2500 (thorough 20000) entries "
    "(calls, notifications, mixed, failing) and ids/parameters 25-150 (thorough 300) levels deep or that long; every case is non-trivial (each yields at least one id/count obligation)",
    "bounds": {"quick": {"batch_len": 3, "alphabet": 24}, "thorough": {"batch_len": 4, "alphabet": 24}},
    "assumptions": [
        "ids are plain JSON values (no __jsonclass__ descriptors inside ids)",
        "float ids are compared by repr after a JSON round trip",
    ],
}


def replay(case):
    if case["leg"] == "object-ids":
        return check_beanid(eval(case["case"], {"__builtins__": {}}, {})).viols
    if case["leg"] == "exotic-ids":
        return check_exotic(eval(case["case"], {"__builtins__": {}}, {})).viols
    return sc.replay_body(PROPS, case)
