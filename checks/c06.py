"""C06 - the client never swallows or mistypes a server-reported error.

E3: every error object of a finite grammar x envelope form x id x entry point
(check_for_errors, ServerProxy call, notification call, MultiCall result
access and iteration at each batch position) against a reference classifier.
"""
import itertools
import json

import jsonrpclib
from jsonrpclib import jsonrpc as J

from mc import gen
from mc.core import Out, drive
from mc.loop import CannedTransport

ABSENT = "<absent>"
CODES = [ABSENT, -32701, -32700, -32699, -32600, -32001, -32000, -31999, -1, 0, 1, 32000, -32000.0, -32000.5,
         -32700.0, -32700.5, "-32000", "abc", None, True, [], {}]
MESSAGES = [ABSENT, "", "m", 0, None]
TRACES = [ABSENT, "t"]
DATAS = [ABSENT, None, 0, [1], {"k": "v"}]
SCALAR_ERRORS = [True, 1, -32000, 1.5, "e", "code", "xcodex", "message", [1], ["code"], [0], ["code", "message"],
                 {"reason": "r"}, {"reason": 0}, {"reason": None}, {"reason": [1]}, {"message": "m"}, {"data": 1},
                 {"a": 1, "b": 2}, {"message": "m", "data": 1}]
ENVELOPES = ["2.0-error-only", "2.0-both", "1.0-null-result", "1.0-with-result"]
IDS = [1, None]
ENTRIES = ["check_for_errors", "check_for_errors/ordered", "check_for_errors/subclass", "call", "notify", "multicall-0", "multicall-1", "multicall-2", "multicall-iter-1",
           "notifications-only-0", "notifications-only-iter-0", "multicall-reread-1"]


def error_objects():
    for e in SCALAR_ERRORS:
        yield e
    for c, m, t, d in itertools.product(CODES, MESSAGES, TRACES, DATAS):
        if c is ABSENT:
            continue
        e = {"code": c}
        if m is not ABSENT:
            e["message"] = m
        if t is not ABSENT:
            e["trace"] = t
        if d is not ABSENT:
            e["data"] = d
        yield e


def envelope(form, rpcid, err, result=7):
    if form == "2.0-error-only":
        return {"jsonrpc": "2.0", "id": rpcid, "error": err}
    if form == "2.0-both":
        return {"jsonrpc": "2.0", "id": rpcid, "error": err, "result": result}
    if form == "1.0-null-result":
        return {"id": rpcid, "error": err, "result": None}
    return {"id": rpcid, "error": err, "result": result}


def classify(err):
    """Reference classifier, from the property text."""
    if isinstance(err, dict) and "code" in err:
        code = err["code"]
        numeric = isinstance(code, (int, float)) and not isinstance(code, bool)
        if numeric and -32700 <= code <= -32000:
            return ("protocol", code)
        return ("app", code)
    return ("any-protocol-error", None)


def _retype(v, ordered):
    if isinstance(v, dict):
        items = [(k, _retype(x, ordered)) for k, x in v.items()]
        return gen.OrderedDict(items) if ordered else gen.MyDict(items)
    if isinstance(v, list):
        return [_retype(x, ordered) for x in v] if ordered else gen.MyList(_retype(x, ordered) for x in v)
    return v


def invoke(entry, reply):
    """Runs one client entry point on a canned reply; returns ('ret', value) or ('exc', exception)."""
    try:
        if entry == "check_for_errors":
            return ("ret", J.check_for_errors(reply))
        if entry.startswith("check_for_errors/"):
            # the same reply as parsed by a JSON backend that builds mapping/sequence subclasses (object_pairs_hook=OrderedDict, ...)
            return ("ret", J.check_for_errors(_retype(reply, entry.endswith("ordered"))))
        if entry in ("call", "notify"):
            t = CannedTransport([json.dumps(reply)])
            p = jsonrpclib.ServerProxy("http://h/", transport=t)
            if entry == "call":
                return ("ret", p.m(1))
            return ("ret", p._notify.m(1))
        if entry.startswith("notifications-only"):
            # a batch made of notifications only, to which the peer nevertheless replies with this object
            t = CannedTransport([json.dumps([reply])])
            p = jsonrpclib.ServerProxy("http://h/", transport=t)
            mc = jsonrpclib.MultiCall(p)
            mc._notify.a(1)
            mc._notify.b(2)
            results = mc()
            if entry.endswith("iter-0"):
                seen = list(results)
                return ("ret", seen[0] if seen else ("NOTHING-TO-READ", len(seen)))
            return ("ret", results[0])
        pos = int(entry[-1])
        others = [{"jsonrpc": "2.0", "id": "o%d" % i, "result": "other%d" % i} for i in range(3)]
        batch = list(others)
        batch[pos] = reply
        t = CannedTransport([json.dumps(batch)])
        p = jsonrpclib.ServerProxy("http://h/", transport=t)
        mc = jsonrpclib.MultiCall(p)
        mc.a(1)
        mc.b(2)
        mc.c(3)
        results = mc()
        if entry.startswith("multicall-reread"):
            # read a later position first, then come back to this one (twice)
            assert results[pos + 1] == "other%d" % (pos + 1)
            try:
                results[pos]
            except J.ProtocolError:
                pass
            return ("ret", results[pos])
        if entry.startswith("multicall-iter"):
            seen = []
            try:
                for r in results:
                    seen.append(r)
            except Exception as ex:
                if seen != ["other%d" % i for i in range(pos)]:
                    return ("ret", ("ITER-LOST-EARLIER-RESULTS", seen))
                return ("exc", ex)
            return ("ret", seen[pos] if len(seen) == 3 and seen[:pos] == ["other%d" % i for i in range(pos)] else ("ITER", seen))
        for i in range(3):
            if i != pos and results[i] != "other%d" % i:
                return ("ret", ("NEIGHBOUR-CHANGED", i, results[i]))
        return ("ret", results[pos])
    except Exception as ex:
        return ("exc", ex)


def check_error(case):
    err, form, rpcid, entry = case
    reply = envelope(form, rpcid, err)
    kind, code = classify(err)
    out = Out(cls="%s/%s" % (kind, entry.split("-")[0]))
    how, val = invoke(entry, reply)
    site = entry.split("-")[0].split("/")[0]
    if how == "ret":
        return out.bad(
            "C06/%s/error-swallowed" % site,
            "%s on reply %r returned %r instead of raising ProtocolError" % (entry, reply, val),
        )
    ex = val
    if not isinstance(ex, J.ProtocolError):
        shape = "dict-with-code" if kind != "any-protocol-error" else ("dict" if isinstance(err, dict) else type(err).__name__)
        return out.bad(
            "C06/%s/raises-%s-for-%s-error" % (site, type(ex).__name__, shape),
            "%s on reply %r raised %r, expected a ProtocolError" % (entry, reply, ex),
        )
    if kind == "protocol":
        if type(ex) is not J.ProtocolError:
            return out.bad("C06/%s/predefined-code-not-plain-ProtocolError" % site, "%s on %r raised %r" % (entry, reply, ex))
        a = ex.args[0] if ex.args else None
        if not (isinstance(a, tuple) and len(a) == 2 and gen.same(gen.normalise(a[0]), code)):
            return out.bad("C06/%s/protocol-error-args" % site, "%s on %r raised ProtocolError%r" % (entry, reply, ex.args))
        if "message" in err and not gen.same(a[1], err["message"]):
            return out.bad("C06/%s/protocol-error-message" % site, "%s on %r raised ProtocolError%r" % (entry, reply, ex.args))
    elif kind == "app":
        if not isinstance(ex, J.AppError):
            return out.bad(
                "C06/%s/other-code-not-AppError" % site,
                "%s on %r raised %s%r, expected AppError" % (entry, reply, type(ex).__name__, ex.args),
            )
        a = ex.args[0] if ex.args else None
        data = err.get("data")
        if not (isinstance(a, tuple) and len(a) == 3 and gen.same(gen.normalise(a[0]), code) and gen.same(gen.normalise(a[2]), data)):
            return out.bad("C06/%s/app-error-args" % site, "%s on %r raised AppError%r" % (entry, reply, ex.args))
        if "message" in err and not gen.same(a[1], err["message"]):
            return out.bad("C06/%s/app-error-message" % site, "%s on %r raised AppError%r" % (entry, reply, ex.args))
        try:
            d = ex.data()
        except Exception as ex2:
            return out.bad("C06/%s/app-error-data-accessor" % site, "AppError.data() raised %r" % (ex2,))
        if not gen.same(gen.normalise(d), data):
            return out.bad("C06/%s/app-error-data-accessor" % site, "AppError.data() = %r, expected %r" % (d, data))
    return out


def error_cases(tier):
    errs = list(error_objects())
    for err in errs:
        for form in ENVELOPES:
            for rpcid in IDS:
                for entry in ENTRIES:
                    if tier == "quick" and entry in ("multicall-0", "multicall-2") and isinstance(err, dict) and "code" in err \
                            and (err.get("trace") is not None or "data" in err):
                        continue
                    yield (err, form, rpcid, entry)


def leg_errors(part, tier, shard, nshards):
    drive(part, "errors", error_cases(tier), shard, nshards, check_error)


# -- success side ---------------------------------------------------------------


def success_cases(tier):
    vals = list(itertools.islice(gen.json_values(2 if tier == "thorough" else 1, 2), 200000))
    for v in vals:
        for form in ("2.0", "2.0-null-error", "1.0"):
            for entry in ENTRIES:
                yield (v, form, entry)


def check_success(case):
    v, form, entry = case
    if form == "2.0":
        reply = {"jsonrpc": "2.0", "id": 1, "result": v}
    elif form == "2.0-null-error":
        reply = {"jsonrpc": "2.0", "id": 1, "result": v, "error": None}
    else:
        reply = {"id": 1, "result": v, "error": None}
    out = Out(cls="success/%s" % entry.split("-")[0])
    site = entry.split("-")[0].split("/")[0]
    how, val = invoke(entry, reply)
    if how == "exc":
        return out.bad(
            "C06/%s/success-raises-%s" % (site, type(val).__name__),
            "%s on reply %r raised %r" % (entry, reply, val),
        )
    if entry.startswith("check_for_errors"):
        if val is not reply and not gen.same(gen.normalise(val), reply):
            return out.bad("C06/check_for_errors/success-changed", "returned %r for %r" % (val, reply))
    elif entry == "notify":
        if val is not None:
            return out.bad("C06/notify/returns-value", "notification returned %r" % (val,))
    elif not gen.same(val, v):
        return out.bad(
            "C06/%s/result-changed" % site,
            "%s on reply %r returned %r, expected %r" % (entry, reply, val, v),
        )
    return out


def leg_success(part, tier, shard, nshards):
    drive(part, "success", success_cases(tier), shard, nshards, check_success)


# -- an error reply that follows a failed exchange on the same proxy (real transport over the in-memory network) ----


def after_fault_cases(tier):
    errs = [{"code": -32601, "message": "m"}, {"code": 5, "message": "app", "data": [1]}, {"code": -32000.0, "message": "b"}, "plain text error",
            {"reason": "r"}]
    for fault in ("truncated-big", "gzip-truncated", "reset-mid-body", "garbage-big", "status-500-big", "none"):
        for ei in range(len(errs)):
            for form in ("2.0", "1.0"):
                for scheme in ("tcp", "unix"):
                    yield (fault, ei, form, scheme)


def check_after_fault(case):
    from mc import env

    fault, ei, form, scheme = case
    errs = [{"code": -32601, "message": "m"}, {"code": 5, "message": "app", "data": [1]}, {"code": -32000.0, "message": "b"}, "plain text error",
            {"reason": "r"}]
    err = errs[ei]
    out = Out(cls="after-fault/" + fault)
    import base64
    import hashlib
    seed, blocks = b"c06", []
    for _ in range(120):
        seed = hashlib.sha256(seed).digest()
        blocks.append(base64.b64encode(seed))
    junk = b'"' + b"".join(blocks) + b'"'  # ~5 KiB that gzip cannot shrink below several read blocks
    reply = {"jsonrpc": "2.0", "id": 2, "error": err} if form == "2.0" else {"id": 2, "result": None, "error": err}
    state = {"n": 0}

    def responder(peer, req, parsed):
        state["n"] += 1
        if state["n"] == 1 and fault != "none":
            if fault == "truncated-big":
                return env.http_resp(200, "OK", junk + b"x" * 64)[:-64], True
            if fault == "gzip-truncated":
                return env.http_resp(200, "OK", env.gzip_bytes(junk)[:-20], extra=["Content-Encoding: gzip"], length=False, ka=False), True
            if fault == "reset-mid-body":
                return env.http_resp(200, "OK", junk + b"x" * 4000)[:-4000], "reset"
            if fault == "garbage-big":
                return env.http_resp(200, "OK", b"<html>" + junk + b"</html>"), False
            return env.http_resp(500, "Internal Server Error", junk), False
        return env.http_resp(200, "OK", json.dumps(reply).encode("utf-8")), False

    peer = env.ScriptPeer(responder=responder)
    url = "http://h.test/rpc" if scheme == "tcp" else "unix+http://./s.sock"
    with env.client_net(peer):
        proxy = jsonrpclib.ServerProxy(url)
        if fault != "none":
            try:
                proxy.first("x")
            except J.ProtocolError:
                pass
            except Exception as ex:
                if state["n"] >= 2:
                    # the transport retried inside the first call and it is the error reply that was read
                    out.bad("C06/call/raises-%s-for-an-error-reply-after-a-failed-exchange" % type(ex).__name__,
                            "%r: the retry inside the first call read the error reply and raised %r instead of ProtocolError" % (case, ex))
        try:
            r = proxy.second("y")
            return out.bad("C06/call/error-swallowed", "%r: the call returned %r for an error reply" % (case, r))
        except J.ProtocolError as ex:
            kind, code = classify(err)
            if kind == "app" and not isinstance(ex, J.AppError):
                out.bad("C06/call/other-code-not-AppError", "%r raised %r" % (case, ex))
            if kind == "protocol" and type(ex) is not J.ProtocolError:
                out.bad("C06/call/predefined-code-not-plain-ProtocolError", "%r raised %r" % (case, ex))
        except Exception as ex:
            out.bad("C06/call/raises-%s-for-an-error-reply-after-a-failed-exchange" % type(ex).__name__,
                    "%r: the error reply that follows a failed exchange raised %r instead of ProtocolError" % (case, ex))
    return out


def leg_after_fault(part, tier, shard, nshards):
    drive(part, "after-fault", after_fault_cases(tier), shard, nshards, check_after_fault)


# -- beyond the small scope: every position of a large batch, long histories on one proxy, large error objects -----------------


def scale_cases(tier):
    sizes = (1100, 2500) if tier == "quick" else (1100, 2500, 20000)
    for n in sizes:
        for where in ("first", "middle", "last", "all-errors", "none"):
            for access in ("index", "iterate"):
                yield ("batch", n, where, access)
    for n in (300, 3000):
        for pattern in ("errors-then-result", "results-then-error", "alternate"):
            yield ("history", n, pattern, "call")
    for size in (5000, 200000):
        for code in (-32000, 7):
            yield ("big-error", size, code, "call")


def check_scale(case):
    what, n, a, b = case
    out = Out(cls="scale/" + what)
    if what == "batch":
        pos = {"first": [0], "middle": [n // 2], "last": [n - 1], "all-errors": list(range(n)), "none": []}[a]
        bad = set(pos)
        batch = [({"jsonrpc": "2.0", "id": i, "error": {"code": 5 + (i % 2) * -32005, "message": "e%d" % i}} if i in bad else
                  {"jsonrpc": "2.0", "id": i, "result": [i, None, ""][i % 3]}) for i in range(n)]
        t = CannedTransport([json.dumps(batch)])
        p = jsonrpclib.ServerProxy("http://h/", transport=t)
        mc = jsonrpclib.MultiCall(p)
        for i in range(n):
            mc.m(i)
        try:
            res = mc()
        except Exception as ex:
            return out.bad("C06/multicall/raises-%s" % type(ex).__name__, "%r: executing the batch raised %r" % (case, ex))
        probe = sorted(set(pos[:3] + pos[-3:] + [0, 1, n // 2 - 1, n // 2, n - 2, n - 1]))
        if b == "index":
            for i in probe:
                try:
                    v = res[i]
                    if i in bad:
                        out.bad("C06/multicall/error-swallowed", "%r: results[%d] returned %r for an error entry" % (case, i, v))
                    elif not gen.same(v, [i, None, ""][i % 3]):
                        out.bad("C06/multicall/result-changed", "%r: results[%d] = %r" % (case, i, v))
                except J.ProtocolError as ex:
                    if i not in bad:
                        out.bad("C06/multicall/success-raises-ProtocolError", "%r: results[%d] raised %r" % (case, i, ex))
                    elif (i % 2 == 0) != isinstance(ex, J.AppError):
                        out.bad("C06/multicall/other-code-not-AppError" if i % 2 == 0 else "C06/multicall/predefined-code-not-plain-ProtocolError", "%r: results[%d] raised %r" % (case, i, ex))
                except Exception as ex:
                    out.bad("C06/multicall/raises-%s" % type(ex).__name__, "%r: results[%d] raised %r" % (case, i, ex))
        else:
            seen = 0
            try:
                for v in res:
                    if not gen.same(v, [seen, None, ""][seen % 3]):
                        out.bad("C06/multicall/result-changed", "%r: iteration item %d = %r" % (case, seen, v))
                        break
                    seen += 1
                stopped = None
            except J.ProtocolError as ex:
                stopped = ex
            except Exception as ex:
                return out.bad("C06/multicall/raises-%s" % type(ex).__name__, "%r: iteration raised %r at item %d" % (case, ex, seen))
            want_stop = min(bad) if bad else None
            if (want_stop is None) != (stopped is None) or (want_stop is not None and seen != want_stop) or (want_stop is None and seen != n):
                out.bad("C06/multicall/error-swallowed" if stopped is None else "C06/multicall/iteration-stops-at-wrong-item",
                        "%r: iteration yielded %d items and %s, the first error entry is %r" % (case, seen, "raised %r" % stopped if stopped else "ended", want_stop))
        return out
    if what == "history":
        replies = []
        for i in range(n):
            err = {"errors-then-result": i < n - 1, "results-then-error": i == n - 1, "alternate": i % 2 == 0}[a]
            replies.append(json.dumps({"jsonrpc": "2.0", "id": i, "error": {"code": -32001 if i % 3 else 9, "message": "m%d" % i}} if err else
                                      {"jsonrpc": "2.0", "id": i, "result": i % 2}))
        t = CannedTransport(replies)
        p = jsonrpclib.ServerProxy("http://h/", transport=t)
        for i in range(n):
            err = {"errors-then-result": i < n - 1, "results-then-error": i == n - 1, "alternate": i % 2 == 0}[a]
            try:
                v = p.m(i)
                if err:
                    return out.bad("C06/call/error-swallowed", "%r: call #%d returned %r for an error reply" % (case, i, v))
                if not gen.same(v, i % 2):
                    return out.bad("C06/call/result-changed", "%r: call #%d returned %r" % (case, i, v))
            except J.ProtocolError as ex:
                if not err:
                    return out.bad("C06/call/success-raises-ProtocolError", "%r: call #%d raised %r" % (case, i, ex))
                if (i % 3 == 0) != isinstance(ex, J.AppError):
                    return out.bad("C06/call/other-code-not-AppError" if i % 3 == 0 else "C06/call/predefined-code-not-plain-ProtocolError", "%r: call #%d raised %r" % (case, i, ex))
            except Exception as ex:
                return out.bad("C06/call/raises-%s" % type(ex).__name__, "%r: call #%d raised %r" % (case, i, ex))
        return out
    msg = "long message " * (n // 13)
    reply = {"jsonrpc": "2.0", "id": 1, "error": {"code": a, "message": msg, "data": {"trace": ["frame"] * (n // 50)}}}
    for entry in ("check_for_errors", "call", "multicall-1"):
        how, val = invoke(entry, reply)
        if how == "ret":
            out.bad("C06/%s/error-swallowed" % entry.split("-")[0], "%r: %s returned for a %d-character error" % (case, entry, n))
        elif not isinstance(val, J.ProtocolError) or (a == 7) != isinstance(val, J.AppError):
            out.bad("C06/%s/raises-%s-for-dict-with-code-error" % (entry.split("-")[0], type(val).__name__), "%r: %s raised %s" % (case, entry, type(val).__name__))
        else:
            args = val.args[0]
            if not (isinstance(args, tuple) and args[0] == a and args[1] == msg):
                out.bad("C06/%s/protocol-error-message" % entry.split("-")[0], "%r: %s raised with a changed message (%d characters)" % (case, entry, len(str(args[1])) if isinstance(args, tuple) and len(args) > 1 else -1))
    return out


def leg_scale(part, tier, shard, nshards):
    drive(part, "scale", scale_cases(tier), shard, nshards, check_scale)


LEGS = {"errors": leg_errors, "success": leg_success, "after-fault": leg_after_fault, "scale": leg_scale}

META = {
    "technique": "bounded-exhaustive enumeration of reply objects x client entry points against a reference error classifier",
    "rule": "error member ranges over scalar/array/single-entry shapes and over every object of the grammar code(22) x message(5) x "
    "trace(2) x data(5); x 4 envelope forms x id {1,null} x 12 entry points (check_for_errors on dict replies, on OrderedDict replies and on dict/list-subclass replies, call, notification, MultiCall access at 3 positions, iteration, re-reading a position after a later one, a notifications-only batch that is answered anyway); success side: every JSON value (depth<=1 quick, <=2 thorough) x "
    "3 envelope forms x 9 entry points; after-fault: an error reply following a truncated / non-JSON / non-200 exchange (bodies larger than the read size) on the "
    "same proxy through the real transport over the in-memory network; scale: batches of 1100/2500 (thorough 20000) results with the error entry first / in the "
    "middle / last / everywhere / nowhere, read by index and by iteration; 300 and 3000 calls on one proxy (errors then a result, results then an error, alternating); "
    "error objects with 5000- and 200000-character messages; all cases are non-trivial (each reaches a classification branch); distinct by encoded case",
    "bounds": {"quick": {"value_depth": 1, "batch_len": 3}, "thorough": {"value_depth": "1 exhaustively, plus depth 2 up to 60000 values in simplest-first order", "batch_len": 3}},
    "assumptions": [
        "falsy-but-not-null error members (0, '', [], {}) are neither 'non-empty' nor 'null or absent' in the property text and are not asserted",
        "the message element is only compared when the error object has a 'message' member",
        "replies reach ServerProxy through a canned transport object (no HTTP)",
    ],
}


def replay(case):
    c = eval(case["case"], {"__builtins__": {}}, {})
    if case["leg"] == "after-fault":
        return check_after_fault(c).viols
    if case["leg"] == "scale":
        return check_scale(c).viols
    if case["leg"] == "errors":
        return check_error(c).viols
    return check_success(c).viols
