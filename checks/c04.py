"""C04 - notifications are executed exactly once and never answered.

E3: notification shape x method outcome x dispatch mode x placement (alone and
at every position of batches of length <=3) x server version against the
reference server model, plus the client side (_notify returns None, MultiCall
notifications contribute no result).  E1: a dispatcher with a notification
ThreadPool, pool started before / concurrently with / after the request, every
schedule within the bound; each notification must have run exactly once at
quiescence and the reply must contain no object for it.
"""
import itertools
import json

import jsonrpclib
import jsonrpclib.threadpool as tp

from mc import bodies as B
from mc import explore, sched
from mc.bodies import ABSENT, obj
from mc.core import Out, drive
from mc.loop import LoopbackTransport
from mc.ref import server as ref

from checks import _server_common as sc
from checks import _pool as P

PROPS = ("C04",)

SHAPES = [("2.0", ABSENT), ("2.0", None), ("2.0", ""), (ABSENT, None), (ABSENT, "")]
OUTCOMES = [("f", [7]), ("boom", []), ("terr", []), ("nosuch", [1]), ("pair", [1]), ("ret3", []), ("f", {"a": 1})]
OTHERS = [obj("2.0", 1, "pair", [1, 2]), obj("2.0", "b", "boom"), 5, obj("2.0", ABSENT, "f", ["other"]), obj(ABSENT, 3, "pair", [3, 4])]
WORLDS = [(v, True, d, inst) for v in (2.0, 1.0) for d, inst in (
    ("default", None), ("custom-ok", None), ("custom-raise", None), ("default", "dispatching"))]


def notif(shape, outcome):
    j, i = shape
    m, p = outcome
    return obj(j, i, m, p)


def cases_sequential(tier):
    for shape in SHAPES:
        for outcome in OUTCOMES:
            n = notif(shape, outcome)
            for w in WORLDS:
                yield (w, B.dumps(n))
                yield (w, B.dumps([n]))
            maxlen = 3 if tier == "thorough" else 2
            for k in range(1, maxlen + 1):
                for combo in itertools.product(range(len(OTHERS)), repeat=k):
                    if tier == "quick" and k == 2 and combo[0] > combo[1]:
                        continue
                    for pos in range(k + 1):
                        batch = [OTHERS[c] for c in combo]
                        batch.insert(pos, n)
                        body = B.dumps(batch)
                        for w in (WORLDS if k == 1 else (WORLDS[0], WORLDS[2], WORLDS[3], WORLDS[4])):
                            yield (w, body)


def cases_sysexit(tier):
    """A notification whose method leaves through SystemExit (default dispatch): never answered, later entries still run."""
    for shape in SHAPES:
        n = notif(shape, ("sysexit", []))
        for w in (WORLDS[0], WORLDS[4]):
            yield (w, B.dumps(n))
            for o in OTHERS:
                yield (w, B.dumps([n, o]))
                yield (w, B.dumps([o, n, obj("2.0", ABSENT, "f", ["after"])]))


def leg_sequential(part, tier, shard, nshards):
    sc.body_leg(part, "sequential", PROPS, itertools.chain(cases_sequential(tier), cases_sysexit(tier)), shard, nshards)


# -- client side -------------------------------------------------------------------


def cases_client(tier):
    for cv in (1.0, 2.0):
        for sv in (1.0, 2.0):
            for m, p in OUTCOMES:
                for how in ("notify", "multicall"):
                    yield (cv, sv, m, p, how)


def check_client(case):
    cv, sv, m, p, how = case
    w = sc.world((sv, True, "default", None))
    out = Out(cls="client-%s" % how)
    t = LoopbackTransport(w.d)
    proxy = jsonrpclib.ServerProxy("http://h/", transport=t, version=cv)
    del w.log[:]
    try:
        if how == "notify":
            meth = getattr(proxy._notify, m)
            r = meth(*p) if isinstance(p, list) else meth(**p)
            if r is not None:
                out.bad("C04/client-notify-returns-value", "%r: _notify.%s returned %r" % (case, m, r))
            if t.replies[-1] != "":
                out.bad("C04/notification-answered", "%r: server replied %r to a client notification" % (case, t.replies[-1]))
        else:
            mc = jsonrpclib.MultiCall(proxy)
            mc.opt(1, 2)
            meth = getattr(mc._notify, m)
            meth(*p) if isinstance(p, list) else meth(**p)
            mc.opt(3, 4)
            res = mc()
            if len(res) != 2 or list(res) != [[1, 2], [3, 4]]:
                out.bad("C04/client-multicall-notification-contributes-result", "%r: batch results %r" % (case, [res.results]))
    except Exception as ex:
        out.bad("C04/client-raises-%s" % type(ex).__name__, "%r raised %r" % (case, ex))
    # executed exactly once when the method exists and the arguments bind
    runs = [e for e in w.log if e[0] == m]
    exists = m in w.funcs
    binds = not (m == "pair" and p == [1])
    want = 1 if exists and binds else 0
    if len(runs) != want:
        out.bad("C04/notification-execution-count", "%r: notification target ran %d times, expected %d (log %r)" % (case, len(runs), want, w.log))
    return out


def leg_client(part, tier, shard, nshards):
    drive(part, "client", cases_client(tier), shard, nshards, check_client)


# -- pool part (E1) ----------------------------------------------------------------------


class NotifHarness(object):
    def __init__(self, size, when, dispatch, batch, gran):
        self.size, self.when, self.dispatch, self.batch = size, when, dispatch, batch
        self.audited = (tp.__file__,) if gran == "line" else ()
        self.runs = {}
        self.v = []
        self.reply = None
        self.finished = False
        self.inside = 0

    def rec(self, name):
        def fn(*a, **k):
            self.runs.setdefault((name, json.dumps([a, k], sort_keys=True)), []).append(sched.S.nsteps)
            if name == "nboom":
                raise ValueError("notification failed")
            return "R-" + name
        fn.__name__ = name
        return fn

    def main(self):
        from jsonrpclib.SimpleJSONRPCServer import SimpleJSONRPCDispatcher

        tp.queue = P.instrumented_queue()
        P.instrumented_queue().Queue.hook = None
        pool = tp.ThreadPool(self.size[0], self.size[1])
        self.pool = pool
        d = SimpleJSONRPCDispatcher(config=jsonrpclib.config.Config(version=2.0))
        for n in ("na", "nb", "nboom", "call"):
            d.register_function(self.rec(n), n)
        d.set_notification_pool(pool)
        custom = None
        if self.dispatch.startswith("custom"):
            def custom(method, params):
                return self.rec(method)(*params)
            if self.dispatch == "custom-partial":
                import functools
                custom = functools.partial(custom)  # a callable without __name__
            elif self.dispatch == "custom-instance":
                plain = custom

                class Dispatch(object):
                    def __call__(self, method, params):
                        return plain(method, params)
                custom = Dispatch()
        body = json.dumps(self.batch)
        starter = None
        if self.when == "before":
            pool.start()
        elif self.when == "during":
            starter = sched.MThread(target=pool.start, name="starter")
            starter.start()
        self.reply = d._marshaled_dispatch(body, custom)
        if self.when == "after":
            pool.start()
        if starter is not None:
            starter.join()
        pool.join(P.BIG)
        self.finished = True

    def abstract(self):
        return tuple(sorted((k, len(v)) for k, v in self.runs.items()))

    def final(self, s):
        v = self.v
        if not self.finished:
            v.append(("C04/pooled-dispatch-does-not-terminate", "status %s, threads %r" % (s.status, [(t.name, t.state, t.why) for t in s.threads])))
            return (("stuck", s.status), v)
        for t in s.threads:
            if t.exc is not None:
                v.append(("C04/thread-died-%s" % type(t.exc).__name__, "thread %s died with %r" % (t.name, t.exc)))
        entries = self.batch if isinstance(self.batch, list) else [self.batch]
        want_answers = [e for e in entries if "id" in e and e["id"] not in (None, "")]
        try:
            got = json.loads(self.reply) if self.reply else []
        except ValueError:
            got = "unparsable"
        if isinstance(got, dict):
            got = [got]
        if got == "unparsable" or len(got) != len(want_answers):
            v.append(("C04/notification-answered" if got != "unparsable" and len(got) > len(want_answers) else "C04/pooled-batch-reply-shape",
                      "reply %r to batch %r: expected %d response object(s)" % (self.reply, self.batch, len(want_answers))))
        else:
            for g, e in zip(got, want_answers):
                if g.get("id") != e["id"]:
                    v.append(("C04/pooled-batch-reply-shape", "reply %r to batch %r" % (self.reply, self.batch)))
        for e in entries:
            key = (e["method"], json.dumps([e.get("params", []), {}], sort_keys=True))
            n = len(self.runs.get(key, ()))
            if n != 1:
                kind = "call" if e in want_answers else "notification"
                v.append(("C04/pooled-%s-executed-%d-times" % (kind, n), "%s %r ran %d times (runs: %r)" % (kind, e, n, sorted(self.runs))))
        extra = set(self.runs) - {(e["method"], json.dumps([e.get("params", []), {}], sort_keys=True)) for e in entries}
        if extra:
            v.append(("C04/pooled-notification-wrong-arguments", "unexpected invocations %r for batch %r" % (sorted(extra), self.batch)))
        obs = (self.reply, tuple(sorted((k, len(x)) for k, x in self.runs.items())))
        return (obs, v)


BATCHES = [
    [obj("2.0", ABSENT, "na", [1]), obj("2.0", 1, "call", [0]), obj("2.0", ABSENT, "nb", [2])],
    [obj("2.0", ABSENT, "na", [1]), obj("2.0", ABSENT, "nb", [2])],
    obj("2.0", ABSENT, "na", [1]),
    [obj("2.0", None, "na", [1]), obj(ABSENT, "", "nboom", []), obj("2.0", 2, "call", [5])],
    [obj("2.0", ABSENT, "na", [1]), obj("2.0", ABSENT, "na", [2]), obj("2.0", ABSENT, "na", [3])],
    # calls whose id is falsy without being null/empty are not notifications: answered, run once, next to real notifications
    [obj("2.0", 0, "call", [9]), obj("2.0", ABSENT, "na", [1]), obj("2.0", False, "call", [8])],
    obj(ABSENT, 0.0, "call", [3]),
    [obj("2.0", [], "call", [4]), obj("2.0", {}, "call", [5]), obj("2.0", "", "nb", [6])],
]


def make(size, when, dispatch, bi, gran):
    sched.install()
    return lambda: NotifHarness(size, when, dispatch, BATCHES[bi], gran)


def harnesses(tier):
    out = []
    sizes = [(1, 0), (1, 1), (2, 0), (2, 1), (2, 2)] + ([(3, 0), (3, 1)] if tier == "thorough" else [])
    for size in sizes:
        for when in ("before", "during", "after"):
            for dispatch in ("default", "custom", "custom-partial", "custom-instance"):
                for bi in range(len(BATCHES)):
                    if tier == "quick" and dispatch == "custom" and bi not in (0, 3):
                        continue
                    if dispatch in ("custom-partial", "custom-instance") and (bi not in (0, 2) or when != "before" or (tier == "quick" and size not in ((1, 0), (2, 1)))):
                        continue
                    if bi >= 5 and tier == "quick" and (size not in ((1, 0), (2, 1)) or when == "during"):
                        continue
                    for gran in (("sync", "line") if tier == "thorough" or (bi in (0, 4) and dispatch == "default") else ("sync",)):
                        out.append((("checks.c04", "make", (size, when, dispatch, bi, gran)),
                                    "pool%d.%d/%s/%s/batch%d/%s" % (size[0], size[1], when, dispatch, bi, gran)))
    return out


def leg_pool(part, tier, shard, nshards):
    total = explore.explore_adaptive(harnesses(tier), P.LEVELS, 1200 if tier == "quick" else 40000,
                                     global_budget=100000 if tier == "quick" else 1200000)
    part.merge(total)


LEGS = {"sequential": leg_sequential, "client": leg_client, "pool": leg_pool}

META = {
    "engine": "E3-small-scope-enumeration+E1-schedule-explorer",
    "serial_legs": ("pool",),
    "technique": "bounded-exhaustive enumeration of notification shapes/placements against a reference server model, plus stateless model checking "
    "(schedule enumeration with iterative preemption/timer bounds) of the dispatcher with a notification ThreadPool",
    "rule": "sequential: 5 notification shapes x 7 method outcomes x 8 (version, dispatch) configurations x placement alone / every position of every "
    "batch of <=2 (quick) / <=3 (thorough) other entries from a 5-entry alphabet; client: _notify and MultiCall._notify through a loopback proxy for "
    "client/server versions {1.0,2.0}^2; pool: 8 batches (notifications of the three shapes, calls, failing notifications, calls with falsy ids 0/False/0.0/[]/{}) x pool sizes x pool started before/during/after the request x default/custom dispatch (function, functools.partial, callable instance), every "
    "schedule up to the per-harness completed (K,T) level; non-trivial = inside the domain / execution with a choice point",
    "bounds": {"quick": {"batch_len": 3, "pool_sizes": "(1,0) (1,1) (2,0) (2,1) (2,2)", "levels": "iterative ladder, predicted next level <= 1200 executions"},
               "thorough": {"batch_len": 4, "pool_sizes": "+ (3,0) (3,1)", "levels": "ladder, predicted <= 40000"}},
    "assumptions": [
        "with a notification pool the execution is observed at quiescence of a running pool (the pool is never stopped)",
        "thread switches only at synchronisation operations (line boundaries of threadpool.py in line harnesses)",
    ],
}


def replay(case):
    if "schedule" in case:
        sched.install()
        return explore.replay_schedule(case)
    c = eval(case["case"], {"__builtins__": {}}, {})
    if case["leg"] == "client":
        return check_client(c).viols
    return sc.replay_body(PROPS, case)
