"""C12 - servers isolate concurrent clients and always shut down cleanly.

E1 + E2: the real SimpleJSONRPCServer / PooledJSONRPCServer, the real
http.server request handler and real ServerProxy clients run over an in-memory
network whose blocking operations are scheduling points of the controlled
scheduler; a serving thread, 1-2 client threads and a controller thread
running a life-cycle program are explored under every schedule within the
preemption bound.
"""
import json

import jsonrpclib
import jsonrpclib.threadpool as tp
import jsonrpclib.SimpleJSONRPCServer as SS
from jsonrpclib.config import Config

from mc import explore, netsched, sched
from mc.core import Part

TCP_ADDR = ("srv.test", 8080)
UNIX_ADDR = "/fake/srv.sock"

# client request kinds
KINDS = ["call", "notify", "batch", "invalid", "fail", "slow", "truncated", "sysexit"]


class Harness(object):
    def __init__(self, server, pool, family, clients, lifecycle, gran):
        self.other_pool = server.endswith("+other-pool")
        self.second_server = server.endswith("+second-server")
        server = server.split("+")[0]
        self.server_kind, self.pool_cfg, self.family = server, pool, family
        self.clients = clients  # tuple of tuples of request kinds
        self.lifecycle = lifecycle
        self.audited = (tp.__file__,) if gran == "line" else ()
        self.v = []
        self.execs = {}
        self.results = {}
        self.finished = False
        self.phase = "init"
        self.blocked_in = None
        self.gates = {}
        self.srv = None
        self.pool = None
        self.sent_ok = {}

    # -- server side callables ------------------------------------------------
    def echo(self, token):
        self.execs[token] = self.execs.get(token, 0) + 1
        if self.phase == "closed":
            self.v.append(("C12/request-executed-after-server-close-returned", "echo(%r) ran after server_close() returned" % (token,)))
        return token

    def fail(self, token):
        self.execs[token] = self.execs.get(token, 0) + 1
        raise ValueError("boom-" + token)

    def sysexit(self, token):
        self.execs[token] = self.execs.get(token, 0) + 1
        raise SystemExit("exit-" + token)

    def nap(self, token):
        self.execs[token] = self.execs.get(token, 0) + 1
        sched.S.sleep(2)  # virtual time: a slow method that finishes by itself
        return token

    def longnap(self, token):
        self.execs[token] = self.execs.get(token, 0) + 1
        sched.S.sleep(40)  # a method that takes 40 virtual seconds (80 polls of the serving loop): the reply is still the reply to this request
        return token

    def slow(self, token):
        self.execs[token] = self.execs.get(token, 0) + 1
        self.gates[token].wait()
        return token

    def waitpeer(self, token):
        # a request that completes only once another client's request has been executed: with a free worker in the pool, that one is served meanwhile
        self.execs[token] = self.execs.get(token, 0) + 1
        self.gates["peer"].wait()
        return token

    def openpeer(self, token):
        self.execs[token] = self.execs.get(token, 0) + 1
        self.gates["peer"].set()
        return token

    # -- clients ----------------------------------------------------------------------
    def url(self):
        return "http://srv.test:8080/" if self.family == "tcp" else "unix+http://" + UNIX_ADDR

    def raw_post(self, body):
        """Sends an arbitrary body with the real HTTPConnection (for bodies the proxy cannot produce)."""
        import http.client

        if self.family == "tcp":
            c = http.client.HTTPConnection("srv.test", 8080)
        else:
            c = jsonrpclib.jsonrpc.UnixHTTPConnection(UNIX_ADDR)
        c.request("POST", "/", body=body, headers={"Content-Type": "application/json"})
        r = c.getresponse()
        data = r.read()
        c.close()
        return r.status, data

    def raw_truncated(self, body, declared):
        """Declares `declared` body bytes, sends fewer, half-closes, and waits for the reply."""
        import socket as _socket

        s = netsched.FSock()
        s.connect(TCP_ADDR if self.family == "tcp" else UNIX_ADDR)
        head = "POST / HTTP/1.1\r\nHost: srv\r\nContent-Type: application/json\r\nContent-Length: %d\r\n\r\n" % declared
        s.sendall(head.encode() + body)
        s.shutdown(_socket.SHUT_WR)
        data = b""
        while True:
            chunk = s.recv(65536)
            if not chunk:
                break
            data += chunk
        s.close()
        status = int(data.split(b" ", 2)[1]) if data.startswith(b"HTTP/") else None
        return status, data.partition(b"\r\n\r\n")[2]

    def client(self, ci):
        prog = self.clients[ci]
        for ri, kind in enumerate(prog):
            tok = "c%d-r%d" % (ci, ri)
            key = (ci, ri)
            try:
                p = jsonrpclib.ServerProxy(self.url())
                if kind == "call":
                    self.results[key] = ("val", p.echo(tok))
                elif kind == "notify":
                    self.results[key] = ("val", p._notify.echo(tok))
                elif kind == "batch":
                    mc = jsonrpclib.MultiCall(p)
                    mc.echo(tok + "a")
                    mc._notify.echo(tok + "n")
                    mc.echo(tok + "b")
                    self.results[key] = ("val", list(mc()))
                elif kind == "invalid":
                    self.results[key] = ("raw",) + self.raw_post(b'{"jsonrpc": "2.0", "method": "echo", "params": ["%s"' % tok.encode())
                elif kind == "truncated":
                    self.results[key] = ("raw",) + self.raw_truncated(b'{"jsonrpc": "2.0", "method": "echo", "params": ["%s"' % tok.encode(), 200)
                elif kind == "sysexit":
                    try:
                        p.sysexit(tok)
                        self.results[key] = ("val", "no error")
                    except jsonrpclib.ProtocolError as ex:
                        self.results[key] = ("protocol-error", ex.args[0][0] if ex.args and isinstance(ex.args[0], tuple) else None, str(ex))
                elif kind == "fail":
                    try:
                        p.fail(tok)
                        self.results[key] = ("val", "no error")
                    except jsonrpclib.ProtocolError as ex:
                        self.results[key] = ("protocol-error", ex.args[0][0] if ex.args and isinstance(ex.args[0], tuple) else None, str(ex))
                elif kind in ("waitpeer", "openpeer"):
                    self.results[key] = ("val", getattr(p, kind)(tok))
                elif kind == "nap":
                    self.results[key] = ("val", p.nap(tok))
                elif kind == "longnap":
                    self.results[key] = ("val", p.longnap(tok))
                elif kind == "slow":
                    self.gates[tok] = sched.Event() if tok not in self.gates else self.gates[tok]
                    self.results[key] = ("val", p.slow(tok))
                try:
                    p("close")()
                except Exception:
                    pass
            except sched.Abort:
                raise
            except Exception as ex:
                self.results[key] = ("exc", type(ex).__name__, str(ex)[:200])

    # -- controller -------------------------------------------------------------------------
    def main(self):
        netsched.reset()
        netsched.install()
        T = sched.MThread
        for ci, prog in enumerate(self.clients):
            for ri, kind in enumerate(prog):
                if kind == "slow":
                    self.gates["c%d-r%d" % (ci, ri)] = sched.Event()
                if kind == "waitpeer":
                    self.gates["peer"] = sched.Event()
        cfg = Config()
        addr = TCP_ADDR if self.family == "tcp" else UNIX_ADDR
        fam = SS.socket.AF_INET if self.family == "tcp" else SS.socket.AF_UNIX
        if self.server_kind == "simple":
            srv = SS.SimpleJSONRPCServer(addr, logRequests=False, config=cfg, address_family=fam)
        else:
            pool = None
            if self.pool_cfg is not None:
                pool = tp.ThreadPool(self.pool_cfg[0], self.pool_cfg[1])
                pool.start()
            self.pool = pool
            srv = SS.PooledJSONRPCServer(addr, logRequests=False, config=cfg, address_family=fam, thread_pool=pool)
        self.srv = srv
        srv.register_function(self.echo, "echo")
        srv.register_function(self.fail, "fail")
        srv.register_function(self.slow, "slow")
        srv.register_function(self.waitpeer, "waitpeer")
        srv.register_function(self.openpeer, "openpeer")
        srv.register_function(self.sysexit, "sysexit")
        srv.register_function(self.nap, "nap")
        srv.register_function(self.longnap, "longnap")
        other = None
        if self.other_pool:
            # a second, independent pool alive in the same process (here: the server's notification pool) with an idle worker
            other = tp.ThreadPool(2, 1, logname="other-pool")
            other.start()
            srv.set_notification_pool(other)
        srv2 = serving2 = None
        if self.second_server:
            # a second server of the same kind alive in the process (its own default pool): closing the first leaves it serving
            cls2 = SS.SimpleJSONRPCServer if self.server_kind == "simple" else SS.PooledJSONRPCServer
            srv2 = cls2(("srv2.test", 8081), logRequests=False, config=cfg)
            srv2.register_function(self.echo, "echo")
            serving2 = T(target=srv2.serve_forever, name="serving2", kwargs={"poll_interval": 0.5})
            serving2.start()
        life = self.lifecycle
        serving = None
        self.phase = "constructed"
        if life != "close-without-serving":
            serving = T(target=srv.serve_forever, name="serving", kwargs={"poll_interval": 0.5})
            serving.start()
            self.phase = "serving"
        cts = [T(target=self.client, args=(ci,), name="client%d" % ci) for ci in range(len(self.clients))]
        for t in cts:
            t.start()
        if life == "close-with-inflight":
            # shut down while a gated request is in flight; a client-side helper opens the gate afterwards
            opener = T(target=self.open_gates_later, name="opener")
            opener.start()
        else:
            for t in cts:
                self.blocked_in = "join-client"
                t.join()
        if life in ("normal", "close-with-inflight", "double"):
            self.blocked_in = "shutdown"
            srv.shutdown()
            if life == "double":
                srv.shutdown()
            self.phase = "shut-down"
        self.blocked_in = "server_close"
        srv.server_close()
        if life == "double":
            srv.server_close()
        self.phase = "closed"
        self.blocked_in = "join-serving"
        if serving is not None:
            serving.join()
        if life == "close-with-inflight":
            for t in cts:
                self.blocked_in = "join-client"
                t.join()
        if other is not None:
            self.blocked_in = "stop-other-pool"
            other.stop()
        if srv2 is not None:
            # the second server still answers after the first one has been closed
            self.phase = "second-server"
            self.blocked_in = "call-second-server"
            try:
                p2 = jsonrpclib.ServerProxy("http://srv2.test:8081/")
                r2 = p2.echo("second-1")
                p2("close")()
                if r2 != "second-1" or self.execs.get("second-1") != 1:
                    self.v.append(("C12/second-server-affected-by-closing-the-first", "the second server answered %r (executions %r)" % (r2, self.execs.get("second-1"))))
            except sched.Abort:
                raise
            except Exception as ex:
                self.v.append(("C12/second-server-affected-by-closing-the-first", "call to the second server raised %r" % (ex,)))
            self.blocked_in = "shutdown-second-server"
            srv2.shutdown()
            srv2.server_close()
            serving2.join()
            self.phase = "closed"
        self.blocked_in = None
        self.finished = True

    def open_gates_later(self):
        # wait until the controller has begun stopping the server, then let the slow requests finish
        sched.S.block(lambda: self.phase in ("shut-down", "closed") or self.blocked_in in ("shutdown", "server_close"), None, "opener")
        for g in self.gates.values():
            g.set()

    def abstract(self):
        return (self.phase, tuple(sorted(self.execs.items())), tuple(sorted((k, v[0]) for k, v in self.results.items())))

    # -- verdict -----------------------------------------------------------------------------------
    def final(self, s):
        v = self.v
        if not self.finished:
            threads = [(t.name, t.state, t.why) for t in s.threads]
            where = self.blocked_in or "?"
            sig = "C12/%s-does-not-terminate/%s%s" % (where, self.server_kind, "/never-served" if self.lifecycle == "close-without-serving" else "")
            v.append((sig, "lifecycle %s: controller stuck in %s (status %s); threads %r" % (self.lifecycle, where, s.status, threads)))
            return (("stuck", where, s.status), v)
        for t in s.threads:
            if t.exc is not None and t.name != "serving":
                v.append(("C12/thread-died-%s" % type(t.exc).__name__, "thread %s died with %r" % (t.name, t.exc)))
        inflight = self.lifecycle == "close-with-inflight"
        for ci, prog in enumerate(self.clients):
            failed_before = False
            for ri, kind in enumerate(prog):
                tok = "c%d-r%d" % (ci, ri)
                res = self.results.get((ci, ri))
                where = "client %d request %d (%s)" % (ci, ri, kind)
                if res is None:
                    v.append(("C12/request-never-completed", "%s has no outcome" % where))
                    continue
                if res[0] == "exc":
                    if not inflight:
                        v.append(("C12/request-failed-on-a-serving-server/%s" % kind, "%s raised %s: %s" % (where, res[1], res[2])))
                    continue
                if kind in ("call", "slow", "nap", "longnap", "waitpeer", "openpeer"):
                    if res != ("val", tok):
                        v.append(("C12/reply-is-not-the-response-to-this-request", "%s got %r, expected %r" % (where, res, tok)))
                    if self.execs.get(tok, 0) != 1:
                        v.append(("C12/request-executed-%d-times" % self.execs.get(tok, 0), "%s: callable ran %d times" % (where, self.execs.get(tok, 0))))
                elif kind == "notify":
                    if res != ("val", None):
                        v.append(("C12/reply-is-not-the-response-to-this-request", "%s got %r" % (where, res)))
                elif kind == "batch":
                    if res != ("val", [tok + "a", tok + "b"]):
                        v.append(("C12/reply-is-not-the-response-to-this-request", "%s got %r" % (where, res)))
                    for suffix in ("a", "n", "b"):
                        if self.execs.get(tok + suffix, 0) != 1:
                            v.append(("C12/request-executed-%d-times" % self.execs.get(tok + suffix, 0), "%s: job %s ran %d times" % (where, suffix, self.execs.get(tok + suffix, 0))))
                elif kind == "sysexit":
                    if not (res[0] == "protocol-error" and res[1] == -32603):
                        v.append(("C12/failing-method-not-answered-32603", "%s (method raising SystemExit) got %r" % (where, res)))
                elif kind in ("invalid", "truncated"):
                    ok = res[0] == "raw" and res[1] == 200
                    try:
                        body = json.loads(res[2].decode("utf-8")) if ok else None
                    except Exception:
                        body = None
                    if not (ok and isinstance(body, dict) and body.get("error", {}).get("code") == -32700):
                        v.append(("C12/malformed-request-not-answered-32700", "%s got %r" % (where, res)))
                elif kind == "fail":
                    if not (res[0] == "protocol-error" and res[1] == -32603 and ("boom-" + tok) in res[2]):
                        v.append(("C12/reply-is-not-the-response-to-this-request", "%s got %r" % (where, res)))
        # notifications: executed exactly once when the server was shut down after the clients finished
        if not inflight:
            for ci, prog in enumerate(self.clients):
                for ri, kind in enumerate(prog):
                    tok = "c%d-r%d" % (ci, ri)
                    if kind == "notify" and self.results.get((ci, ri), ("x",))[0] == "val" and self.execs.get(tok, 0) != 1:
                        v.append(("C12/request-executed-%d-times" % self.execs.get(tok, 0), "notification of client %d ran %d times" % (ci, self.execs.get(tok, 0))))
        if netsched.EVENTS:
            v.append(("C12/%s" % netsched.EVENTS[0], "environment observed: %r" % (netsched.EVENTS[:3],)))
        if not self.srv.socket.closed:
            v.append(("C12/listening-socket-open-after-server_close", "the listening socket is still open"))
        if self.server_kind == "pooled":
            alive = [t.name for t in s.threads if t.state == "run" and t.name.startswith(("PooledJSONRPCServer", "jsonrpclib.threadpool"))]
            if self.second_server:
                alive = []  # judged through the second server's own close above
            if alive:
                v.append(("C12/pool-worker-alive-after-server_close", "request-pool workers still alive: %r" % (alive,)))
        obs = (tuple(sorted(self.results.items())), tuple(sorted(self.execs.items())))
        return (obs, v)


def make(server, pool, family, clients, lifecycle, gran):
    sched.install(socketserver_too=True)
    return lambda: Harness(server, tuple(pool) if pool else None, family, clients, lifecycle, gran)


def spec(server, pool, family, clients, lifecycle, gran="sync"):
    cl = "|".join("+".join(c) for c in clients) or "no-clients"
    if len(clients) > 4 and len(set(clients)) == 1:
        cl = "%dx(%s)" % (len(clients), "+".join(clients[0]))
    label = "%s%s/%s/%s/%s/%s" % (server, "" if pool is None else "(%d,%d)" % tuple(pool), family, cl, lifecycle, gran)
    return (("checks.c12", "make", (server, pool, family, clients, lifecycle, gran)), label)


SERVERS = [("simple", None), ("pooled", None), ("pooled", (1, 1)), ("pooled", (1, 0)), ("pooled", (2, 0))]


def extra_harnesses(tier):
    h = []
    # another started pool in the same process: closing the server terminates, and stops only its own pool
    for server, pool in (("pooled+other-pool", None), ("pooled+other-pool", (1, 1)), ("simple+other-pool", None)):
        h.append(spec(server, pool, "tcp", (("call", "notify"),), "normal") + ((1 if tier == "thorough" else 0),))
        h.append(spec(server, pool, "tcp", (), "normal") + (1,))
    # two servers of the same kind alive at once: closing one leaves the other serving
    for server in ("pooled+second-server", "simple+second-server"):
        h.append(spec(server, None, "tcp", (("call",),), "normal") + (1,))
        h.append(spec(server, None, "tcp", (), "normal") + (1,))
    # many simultaneous clients of slow methods (beyond the default request pool's 30 workers), default schedule only
    for n in ((140,) if tier == "quick" else (35, 70, 140, 200)):
        h.append(spec("pooled", None, "tcp", ((("nap",),) * n), "normal") + (0, {"F": 0}))
    h.append(spec("simple", None, "tcp", ((("nap",),) * 40), "normal") + (0, {"F": 0}))
    for server, pool in (("simple", None), ("pooled", (1, 1))):
        for family in ("tcp", "unix"):
            h.append(spec(server, pool, family, (("longnap", "call"),), "normal") + (1,))
    h.append(spec("pooled", (2, 0), "unix", ((("call", "nap"),) * 12), "normal") + (0, {"F": 0}))
    h.append(spec("pooled", (1, 0), "tcp", ((("nap",),) * 3), "normal") + ((1 if tier == "thorough" else 0),))
    # a request that waits for another client's request: a pool with room for two serves the second while the first waits
    for pool in ((2, 0), (2, 1), None):
        h.append(spec("pooled", pool, "tcp", (("waitpeer",), ("openpeer",)), "normal") + (1,))
    return h


def harnesses(tier):
    h = []
    one = [(("call", "call"),), (("invalid", "call"),), (("fail", "call"),), (("notify", "call"),), (("batch",),), (("truncated", "call"),), (("sysexit", "call"),)]
    two = [(("call",), ("call",)), (("call",), ("notify",)), (("batch",), ("call",)), (("invalid",), ("call",)), (("fail",), ("call",))]
    lifes = [("close-without-serving", ()), ("double", (("call",),)), ("close-with-inflight", (("slow",),)), ("normal", ())]
    if tier == "quick":
        for server, pool in SERVERS:
            for clients in one:
                h.append(spec(server, pool, "tcp", clients, "normal") + (1,))
            h.append(spec(server, pool, "unix", one[0], "normal") + (1,))
            for life, clients in lifes:
                h.append(spec(server, pool, "tcp", clients, life) + (2,))
            h.append(spec(server, pool, "unix", (), "close-without-serving") + (1,))
        for clients in two:
            h.append(spec("simple", None, "tcp", clients, "normal") + (1,))
        h.append(spec("simple", None, "unix", two[0], "normal") + (1,))
        h.append(spec("simple", None, "tcp", (("slow",), ("call",)), "close-with-inflight") + (1,))
        h.append(spec("pooled", (1, 1), "tcp", two[0], "normal") + (1,))
        h.append(spec("pooled", None, "tcp", two[3], "normal") + (1,))
        h += extra_harnesses(tier)
        return h
    three = [(("call",), ("call",), ("call",)), (("call",), ("invalid",), ("notify",)), (("batch",), ("fail",), ("call",)),
             (("call", "call"), ("call", "notify"))]
    for server, pool in SERVERS:
        for family in ("tcp", "unix"):
            for clients in one + two:
                h.append(spec(server, pool, family, clients, "normal") + (2 if server == "simple" or clients in one else 1,))
            for life, clients in lifes + [("close-with-inflight", (("slow",), ("call",)))]:
                h.append(spec(server, pool, family, clients, life) + (2,))
        for clients in three:
            h.append(spec(server, pool, "tcp", clients, "normal") + (1,))
        h.append(spec(server, pool, "tcp", (("call",), ("call",)), "normal", "line") + (1,))
    h += extra_harnesses(tier)
    return h


LEVELS = [{"K": 0, "T": 0}, {"K": 1, "T": 0}, {"K": 2, "T": 0}, {"K": 3, "T": 0}]


def leg(part, tier, shard, nshards):
    total = explore.explore_adaptive(harnesses(tier), LEVELS, 20000 if tier == "quick" else 400000, chunk=150,
                                     global_budget=120000 if tier == "quick" else 900000)
    part.merge(total)
    part.counters["harnesses"] = len(harnesses(tier))


LEGS = {"schedules": leg}

META = {
    "engine": "E1-schedule-explorer+E2-fake-network-history-search",
    "serial_legs": ("schedules",),
    "technique": "stateless model checking of the real servers, request handler and clients over an in-memory network whose blocking operations are "
    "scheduling points: exhaustive schedule enumeration with iterative preemption bounding, non-termination decided by the scheduler's deadlock verdict",
    "rule": "additionally: a request that completes only after another client's request has run, on pooled servers with room for two workers ((2,0), (2,1), default pool), every schedule with 1 preemption; two servers of the same kind alive at once (the first is closed, the second must still answer); a method taking 40 virtual seconds over TCP and Unix sockets (socket timeouts are honoured in virtual time); servers next to a second started pool (their notification pool), 140 (thorough 35/70/140/200) simultaneous clients of a slow method on "
    "the default request pool, 40 on a plain server, 12 x (call, slow call) on a (2,0) pool over Unix sockets - default hand-over order at blocking points (F=0), no preemption; 3 clients of the slow method on a (1,0) pool with the ordinary ladder; harness = server (Simple, Pooled with default pool (30,0) or user pools (1,1) (1,0) (2,0)) x listener (TCP, Unix) x client programs (1-2 clients "
    "(thorough 3), 1-2 requests each from {call, notification, batch, malformed body, truncated body with half-close, failing method, method raising SystemExit, gated slow method}) x life-cycle (serve/shutdown/"
    "server_close, server_close without serving, double shutdown and close, shutdown with a gated request in flight); every schedule up to the per-harness "
    "completed preemption level; non-trivial = execution with a choice point",
    "bounds": {"quick": {"clients": 2, "levels": "K=1 for request mixes, K=2 for life-cycle programs (per-harness level in notes.completed_bounds)"},
               "thorough": {"clients": 3, "levels": "K=2 for single-client and Simple-server harnesses and life-cycle programs, K=1 for 2-3 clients on pooled servers"}},
    "assumptions": [
        "the kernel is replaced by in-memory sockets: accept/connect/send/recv-on-empty/select are the only socket scheduling points",
        "serve_forever polls with a virtual-clock timeout; early timer firing is not explored for this property (T=0)",
        "with a request in flight at shutdown, client-side failures are not judged (only termination, isolation of completed replies and clean-up)",
    ],
}


def replay(case):
    sched.install(socketserver_too=True)
    return explore.replay_schedule(case)
