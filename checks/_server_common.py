"""Shared driver for the server-side E3 checks (C02, C03, C04, C05, C13)."""
from mc.core import Out, drive
from mc.ref import server as ref

_WORLDS = {}


def world(key):
    """key = (version, use_jsonclass, dispatch, instance)"""
    w = _WORLDS.get(key)
    if w is None:
        version, use_jsonclass, dispatch, instance = key
        w = ref.World(version=version, use_jsonclass=use_jsonclass, dispatch=dispatch, instance=instance)
        _WORLDS[key] = w
    return w


def make_evaluate(props, fresh_world=False):
    """evaluate(case) for cases (world_key, body); keeps violations of the given properties."""
    props = set(props)

    def evaluate(case):
        key, body = case
        w = ref.World(version=key[0], use_jsonclass=key[1], dispatch=key[2], instance=key[3]) if fresh_world else world(key)
        viols, label, in_domain = ref.evaluate_body(w, body)
        out = Out(cls=label, nontrivial=in_domain)
        for prop, sig, detail in viols:
            if prop == "HARNESS":
                raise AssertionError(detail)
            if prop in props:
                out.bad(sig, detail)
        return out

    return evaluate


def body_leg(part, leg, props, cases, shard, nshards):
    drive(part, leg, cases, shard, nshards, make_evaluate(props))


def replay_body(props, case):
    c = eval(case["case"], {"__builtins__": {}}, {})
    return make_evaluate(props, fresh_world=True)(c).viols
