"""Shared driver for the server-side E3 checks (C02, C03, C04, C05, C13)."""
from mc import bodies
from mc.core import Out, drive
from mc.ref import server as ref

_WORLDS = {}


def world(key):
    """key = (version, use_jsonclass, dispatch, instance)"""
    rkey = repr(key)  # 2 and 2.0 are different configurations
    w = _WORLDS.get(rkey)
    if w is None:
        version, use_jsonclass, dispatch, instance = key
        w = ref.World(version=version, use_jsonclass=use_jsonclass, dispatch=dispatch, instance=instance)
        _WORLDS[rkey] = w
    return w


def make_evaluate(props, fresh_world=False):
    """evaluate(case) for cases (world_key, body); keeps violations of the given properties."""
    props = set(props)

    def evaluate(case):
        key, body = case
        body = bodies.realise(body)
        w = ref.World(version=key[0], use_jsonclass=key[1], dispatch=key[2], instance=key[3]) if fresh_world else world(key)
        viols, label, in_domain = ref.evaluate_body(w, body)
        out = Out(cls=label, nontrivial=in_domain)
        for prop, sig, detail in viols:
            if prop == "HARNESS":
                raise AssertionError(detail)
            if prop in props:
                out.bad(sig, detail)
        return out

    return evaluate


def body_leg(part, leg, props, cases, shard, nshards):
    drive(part, leg, cases, shard, nshards, make_evaluate(props))


def replay_body(props, case):
    c = eval(case["case"], {"__builtins__": {}}, {})
    return make_evaluate(props, fresh_world=True)(c).viols


SCALES = {"quick": (1001, 1025, 2500), "thorough": (1001, 1025, 4097, 20000)}
DEPTHS = {"quick": (25, 60, 150), "thorough": (25, 33, 60, 150, 300)}


def scale_cases(tier, worlds):
    """One body per size dimension beyond the small scope (large batches, deep nesting, long strings, many members)."""
    for kind in bodies.SCALE_KINDS:
        sizes = DEPTHS[tier] if kind.startswith("deep") else SCALES[tier]
        for n in sizes:
            for w in worlds:
                yield (w, ("GEN", kind, n))
