"""C11 - join() means finished; stop() always terminates; the pool is restartable.

E1: life-cycle programs over {start, stop, enqueue, join, join(timeout)}
(enumerated up to a length bound, plus curated two-thread programs in which a
second thread enqueues, joins or opens a gate while the controller stops the
pool) on the real ThreadPool under the controlled scheduler.
"""
from checks import _pool as P

PROP = "C11"
LIFE = ["P5-between-stop-and-restart", "P6-stop-races-enqueue", "P10-stop-enq-start", "P13-untimed-join-after-stop-start",
        "P14-join-while-gated-runs", "P15-double-start-stop", "P20-timed-join-with-gated", "P21-stop-with-join-racing",
        "P7-more-prequeued-than-workers", "P18-chain-after-restart", "P1-prequeued-then-start", "P12-bounded-queue"]


def lifecycle(prog):
    names = [o[0] for o in prog]
    return "stop" in names or "join" in names


def jobs(tier):
    if tier == "quick":
        j = P.curated_jobs(LIFE, [(1, 1), (2, 0), (2, 2)], "sync", 1, 0)
        j += P.curated_jobs(["P5-between-stop-and-restart", "P6-stop-races-enqueue", "P14-join-while-gated-runs", "P20-timed-join-with-gated",
                             "P21-stop-with-join-racing", "P15-double-start-stop"], [(2, 0)], "sync", 1, 1)
        j += P.curated_jobs(LIFE, [(1, 0)], "sync", 2, 0)
        j += P.generated_jobs(3, [(1, 1), (2, 0)], "sync", 1, 1, keep=lifecycle)
        j += P.generated_jobs(4, [(2, 0)], "sync", 1, 0, keep=lambda p: [o[0] for o in p].count("stop") >= 1 and lifecycle(p), Lmin=4)
        j += P.curated_jobs(["P6-stop-races-enqueue", "P14-join-while-gated-runs", "P15-double-start-stop", "P5-between-stop-and-restart"],
                            [(1, 1), (2, 0)], "line", 1, 0)
    else:
        sizes = [(1, 0), (1, 1), (2, 0), (2, 1), (2, 2), (3, 1)]
        j = P.curated_jobs(LIFE, sizes, "sync", 2, 1)
        j += P.generated_jobs(4, [(1, 1), (2, 0), (2, 2)], "sync", 1, 1, keep=lifecycle)
        j += P.generated_jobs(5, [(2, 0)], "sync", 1, 0, keep=lambda p: [o[0] for o in p].count("stop") >= 1, Lmin=5)
        j += P.curated_jobs(LIFE, [(1, 1), (2, 0), (2, 2)], "line", 1, 1)
    return j


def leg(part, tier, shard, nshards):
    P.run_pool_leg(part, PROP, jobs(tier))


LEGS = {"schedules": leg}

META = {
    "engine": "E1-schedule-explorer",
    "serial_legs": ("schedules",),
    "technique": "stateless model checking of the real ThreadPool life cycle: exhaustive schedule enumeration with preemption and timer-deviation "
    "bounds over enumerated life-cycle histories; non-termination is decided by the scheduler's deadlock/livelock verdict under a virtual clock",
    "rule": "harness = (life-cycle program, pool size, granularity); programs: every well-typed program of length <=3 (<=4 with a stop; thorough <=5) "
    "over {start, stop, enqueue x3 kinds, open, result, join, join(5), sleep} containing stop or join, plus 12 curated programs with a second thread "
    "enqueuing / joining / opening a gate during stop(); every schedule within K preemptions and T early timer firings; non-trivial = execution "
    "with a choice point",
    "bounds": {"quick": {"program_length": "3-4", "K": "1-2", "T": "0-1"}, "thorough": {"program_length": "4-5", "K": "1-2", "T": 1}},
    "assumptions": [
        "join()==True is only judged for joins on a running pool during which no stop() was invoked (property text)",
        "thread switches only at synchronisation operations (line boundaries of threadpool.py in the line harnesses)",
    ],
}


def replay(case):
    return P.replay_pool(PROP, case)
