"""C11 - join() means finished; stop() always terminates; the pool is restartable.

E1: life-cycle programs over {start, stop, enqueue, join, join(timeout)}
(enumerated up to a length bound, plus curated two-thread programs in which a
second thread enqueues, joins or opens a gate while the controller stops the
pool) on the real ThreadPool under the controlled scheduler.
"""
from checks import _pool as P

PROP = "C11"
LIFE = ["P36-stop-with-two-busy-workers", "P37-stop-with-two-busy-then-work", "P34-join-zero-timeout", "P31-task-raises-SystemExit", "P32-SystemExit-then-restart", "P29-stop-while-busy-then-restart", "P30-stop-while-busy-restart-chain", "P5-between-stop-and-restart", "P6-stop-races-enqueue", "P10-stop-enq-start", "P13-untimed-join-after-stop-start",
        "P14-join-while-gated-runs", "P15-double-start-stop", "P20-timed-join-with-gated", "P21-stop-with-join-racing",
        "P7-more-prequeued-than-workers", "P18-chain-after-restart", "P1-prequeued-then-start", "P12-bounded-queue"]


def lifecycle(prog):
    names = [o[0] for o in prog]
    return "stop" in names or "join" in names


def harnesses(tier):
    if tier == "quick":
        h = P.curated_h(LIFE, [(1, 0), (1, 1), (2, 0), (2, 2)], "sync")
        h += P.curated_h(["P36-stop-with-two-busy-workers", "P37-stop-with-two-busy-then-work"], [(2, 1), (3, 3)], "sync")
        h += P.generated_h(3, [(1, 1), (2, 0)], "sync", keep=lifecycle)
        h += P.generated_h(4, [(2, 0)], "sync", keep=lambda p: [o[0] for o in p].count("stop") >= 1 and lifecycle(p), Lmin=4)
        h += P.curated_h(["P6-stop-races-enqueue", "P14-join-while-gated-runs", "P15-double-start-stop", "P5-between-stop-and-restart",
                          "P10-stop-enq-start", "P21-stop-with-join-racing"], [(1, 1), (2, 0)], "line")
    else:
        sizes = [(1, 0), (1, 1), (2, 0), (2, 1), (2, 2), (3, 1)]
        h = P.curated_h(LIFE, sizes, "sync")
        h += P.generated_h(4, [(1, 1), (2, 0), (2, 2)], "sync", keep=lifecycle)
        h += P.generated_h(5, [(2, 0)], "sync", keep=lambda p: [o[0] for o in p].count("stop") >= 1, Lmin=5)
        h += P.curated_h(LIFE, [(1, 1), (2, 0), (2, 2)], "line")
    h += P.scale_h(tier, ["S10-callable-kinds", "S3-four-restarts", "S7-idle-cycles", "S9-restart-with-backlog", "S2-ten-prequeued"])  # many tasks / restarts / larger pools, first ladder levels
    h += P.options_h(tier)  # bounded queue / short and long polling timeouts
    h += P.fault_h(tier)  # a worker-thread creation that fails
    return h


BUDGET = {"quick": 1200, "thorough": 30000}


def leg(part, tier, shard, nshards):
    P.run_pool_leg(part, PROP, harnesses(tier), BUDGET[tier], global_budget={"quick": 150000, "thorough": 1200000}[tier])


LEGS = {"schedules": leg}

META = {
    "engine": "E1-schedule-explorer",
    "serial_legs": ("schedules",),
    "technique": "stateless model checking of the real ThreadPool life cycle: exhaustive schedule enumeration with preemption and timer-deviation "
    "bounds over enumerated life-cycle histories; non-termination is decided by the scheduler's deadlock/livelock verdict under a virtual clock",
    "rule": "harness = (life-cycle program, pool size, granularity); programs: every well-typed program of length <=3 (<=4 with a stop; thorough <=5) "
    "over {start, stop, enqueue x3 kinds, open, result, join, join(5), sleep} containing stop or join, plus 12 curated programs with a second thread "
    "enqueuing / joining / opening a gate during stop(); every schedule within K preemptions and T early timer firings; non-trivial = execution "
    "with a choice point",
    "bounds": {"quick": {"program_length": "3-4", "levels": "iterative (K,T) ladder (0,0) (1,0) (1,1) (2,1) (3,1) (3,2) (4,2) per harness while the predicted size of the next level is <= 1200 executions; deepest completed level per harness in notes.completed_bounds"},
               "thorough": {"program_length": "4-5", "levels": "same ladder, predicted size <= 60000"}},
    "assumptions": [
        "join()==True is only judged for joins on a running pool during which no stop() was invoked (property text)",
        "thread switches only at synchronisation operations (line boundaries of threadpool.py in the line harnesses)",
    ],
}


def replay(case):
    return P.replay_pool(PROP, case)
