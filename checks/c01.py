"""C01 - end-to-end call transparency across versions, transports and call styles.

E3: method name x argument style x JSON values x call form (plain, dotted
chain, MultiCall position) x client/server protocol version x class
translation on/off through a loopback transport into the real dispatcher, with
a History attached; plus the same calls over kernel TCP and Unix sockets
against real SimpleJSONRPCServer and PooledJSONRPCServer instances.
"""
import inspect
import itertools
import os
import shutil
import socket
import tempfile
import threading

import jsonrpclib
from jsonrpclib.config import Config
from jsonrpclib.history import History
from jsonrpclib.SimpleJSONRPCServer import PooledJSONRPCServer, SimpleJSONRPCDispatcher, SimpleJSONRPCServer

from mc import gen
from mc.core import Out, drive
from mc.loop import LoopbackTransport

NAMES = ["f", "ns.f", "a.b.c", "名前", "with space", "x-y", "_under", "class", "é.è"]
STYLES = ["none", "pos1", "pos2", "kw1", "kw2"]
VERSIONS = [(2.0, 2.0), (1.0, 2.0), (2.0, 1.0), (1.0, 1.0)]


class Nested(object):
    pass


class SizedHistory(History):
    """A History that is falsy while empty (it has a length)."""

    def __len__(self):
        return len(self.requests)


class Registry(object):
    """Registers one recording callable per method name on a dispatcher."""

    def __init__(self, d):
        self.log = []
        self.ret = None
        self.generation = {}
        for name in NAMES:
            if name == "a.b.c":
                continue
            d.register_function(self.make(name), name)
        inst = Nested()
        inst.b = Nested()
        inst.b.c = self.make("a.b.c")
        holder = Nested()
        holder.a = inst
        # the registered instance also offers an attribute path spelled like the registered function 'ns.f' (the function is the one registered under that name)
        holder.ns = Nested()
        holder.ns.f = self.decoy("ns.f")
        holder.f = self.decoy("f")
        d.register_instance(holder)

    def decoy(self, name):
        def fn(*a, **k):
            self.log.append(("INSTANCE-ATTRIBUTE-INSTEAD-OF-REGISTERED-FUNCTION:%s" % name, list(a), dict(k)))
            return "wrong-callable"
        return fn

    def make(self, name, generation=0):
        def fn(*a, **k):
            current = self.generation.get(name, 0)
            self.log.append((name if generation == current else "STALE-REGISTRATION:%s" % name, list(a), dict(k)))
            return self.ret if generation == current else "stale-result"
        return fn

    def reregister(self, d, name):
        """Registers a fresh callable under a name that is already registered (the newest registration must be the one called)."""
        g = self.generation.get(name, 0) + 1
        self.generation[name] = g
        if name == "a.b.c":
            inst = Nested()
            inst.b = Nested()
            inst.b.c = self.make("a.b.c", g)
            holder = Nested()
            holder.a = inst
            d.register_instance(holder)
        else:
            d.register_function(self.make(name, g), name)


def build_args(style, v, w):
    if style == "none":
        return [], {}
    if style == "pos1":
        return [v], {}
    if style == "pos2":
        return [v, w], {}
    if style == "kw1":
        return [], {"a": v}
    return [], {"a": v, "é": w}


def get_method(proxy, name, chain):
    if chain and "." in name:
        m = proxy
        for seg in name.split("."):
            m = getattr(m, seg)
        return m
    return getattr(proxy, name)


_LOOP = {}


def loop_world(sv, jc):
    key = (sv, jc)
    if key not in _LOOP:
        cfg = Config(version=sv, use_jsonclass=jc)
        d = SimpleJSONRPCDispatcher(config=cfg)
        _LOOP[key] = (d, Registry(d))
    return _LOOP[key]


def judge_call(out, tag, reg, name, args, kwargs, r, got, exc):
    if exc is not None:
        return out.bad("C01/%s/call-raises-%s" % (tag, type(exc).__name__), "%s%r %r -> raised %r" % (name, args, kwargs, exc))
    want_log = [(name, gen.normalise(args), gen.normalise(kwargs))]
    if not gen.same(gen.normalise([list(e) for e in reg.log]), gen.normalise([list(e) for e in want_log])):
        kind = "callable-invoked-%d-times" % len(reg.log) if len(reg.log) != 1 else "arguments-changed"
        out.bad("C01/%s/%s" % (tag, kind), "%s called with %r %r: server log %r" % (name, args, kwargs, reg.log))
    if not gen.same(got, gen.normalise(r)):
        out.bad("C01/%s/return-value-changed" % tag, "%s returning %r: client got %r" % (name, r, got))
    return out


def check_loop(case):
    name, style, v, w, r, (cv, sv), jc, form = case
    out = Out(cls="%s/%s/c%s-s%s" % (form, style, cv, sv))
    d, reg = loop_world(sv, jc)
    t = LoopbackTransport(d)
    hist = History()
    proxy = jsonrpclib.ServerProxy("http://h/", transport=t, version=cv, history=hist, config=Config(version=cv, use_jsonclass=jc))
    args, kwargs = build_args(style, v, w)
    del reg.log[:]
    reg.ret = r
    got, exc = None, None
    try:
        got = get_method(proxy, name, form == "chain")(*args, **kwargs)
    except Exception as ex:
        exc = ex
    judge_call(out, "loopback", reg, name, args, kwargs, r, got, exc)
    if hist.requests != [s[2] for s in t.sent] or hist.responses != t.replies:
        out.bad("C01/history-differs-from-exchanged-texts", "history %r / %r, exchanged %r / %r" % (hist.requests, hist.responses, [s[2] for s in t.sent], t.replies))
    if hist.request != (t.sent[-1][2] if t.sent else None) or hist.response != (t.replies[-1] if t.replies else None):
        out.bad("C01/history-differs-from-exchanged-texts", "History.request / History.response %r / %r are not the latest exchanged texts" % (hist.request, hist.response))
    return out


def loop_cases(tier):
    leaves = gen.LEAVES
    # full product over the leaf alphabet
    for name in NAMES:
        for style in STYLES:
            for vi, v in enumerate(leaves):
                w = leaves[(vi * 7 + 3) % len(leaves)]
                r = leaves[(vi * 5 + 1) % len(leaves)]
                for ver in VERSIONS:
                    for jc in (True, False):
                        forms = ("plain", "chain") if "." in name else ("plain",)
                        for form in forms:
                            yield (name, style, v, w, r, ver, jc, form)
    # every nested value as argument and as return value
    depth = 2 if tier == "thorough" else 1
    width = 2
    for i, val in enumerate(gen.json_values(depth, width)):
        if tier == "thorough" and i > 300000:
            break
        name = NAMES[i % len(NAMES)]
        style = ("pos1", "kw1", "pos2", "kw2")[i % 4]
        ver = VERSIONS[i % 4]
        yield (name, style, val, val, val, ver, bool(i % 3), "plain")
        if i % 2:
            yield (name, style, val, val, val, VERSIONS[(i + 1) % 4], not bool(i % 3), "plain")


def leg_loop(part, tier, shard, nshards):
    drive(part, "loopback", loop_cases(tier), shard, nshards, check_loop)


# -- sessions: several calls on one proxy (state carried from one call to the next) ------------------------


SESSION_STEPS = [("f", "pos1"), ("ns.f", "kw2"), ("a.b.c", "pos2"), ("BATCH", ""), ("NOTIFY", "pos1"), ("REREG", "f"), ("REREG", "a.b.c"), ("REREG", "ns.f"), ("CLEAR", ""),
                 ("MC-NOTIFS", ""), ("MC-CALL", ""),  # these two use one MultiCall object for the whole session
                 ("NOTIFY-SAME", "pos1"), ("CALL-SAMEID", ""),
                 ("HELD", "ns.f"), ("HELD", "a.b.c"), ("HELD", "f")]  # method objects obtained once per session (ns = proxy.ns; a = proxy.a; f = proxy.f) and used again and again  # the same notification text every time (a 2.0 notification carries no id): repeated exchanges are recorded as often as they happen


def session_cases(tier):
    leaves = gen.SMALL_LEAVES + [2 ** 53, -0.0, "\U0001F600", [1, [2]], {"k": {"a": None}}]
    steps = SESSION_STEPS
    # quick: every sequence of 3 of the 16 steps; thorough: every sequence of 4, and every sequence of 5 of the first 11 steps
    plans = [(3, len(steps), (0, 5, 11))] if tier != "thorough" else [(4, len(steps), (0, 5, 11)), (5, 11, (0,))]
    for L, n, vis in plans:
        for seq in itertools.product(range(n), repeat=L):
            for vi in vis:
                for ver in (VERSIONS if tier == "thorough" else VERSIONS[:2]):
                    yield (seq, vi, ver)


def check_session(case):
    seq, vi, (cv, sv) = case
    leaves = gen.SMALL_LEAVES + [2 ** 53, -0.0, "\U0001F600", [1, [2]], {"k": {"a": None}}]
    steps = SESSION_STEPS
    out = Out(cls="session")
    cfg = Config(version=sv)
    d = SimpleJSONRPCDispatcher(config=cfg)  # a fresh dispatcher: sessions change the registrations
    reg = Registry(d)
    t = LoopbackTransport(d)
    hist = SizedHistory() if vi == 5 else History()
    proxy = jsonrpclib.ServerProxy("http://h/", transport=t, version=cv, history=hist)
    base = 0  # index of the first exchange after the last History.clear()
    shared_mc = jsonrpclib.MultiCall(proxy)
    held = {"ns": proxy.ns, "a": proxy.a, "f": proxy.f}
    for pos, si in enumerate(seq):
        name, style = steps[si]
        v = leaves[(vi + pos * 3) % len(leaves)]
        w = leaves[(vi + pos * 5 + 1) % len(leaves)]
        r = leaves[(vi + pos * 7 + 2) % len(leaves)]
        del reg.log[:]
        reg.ret = r
        try:
            if name == "REREG":
                reg.reregister(d, style)
                continue
            if name == "CLEAR":
                hist.clear()
                base = len(t.sent)
                if hist.request is not None or hist.response is not None or hist.requests or hist.responses:
                    out.bad("C01/history-differs-from-exchanged-texts", "session %r step %d: the history is not empty after clear()" % (case, pos))
                continue
            if name in ("MC-NOTIFS", "MC-CALL"):
                # the same MultiCall object is reused: every execution sends exactly the jobs queued since the previous one
                if name == "MC-NOTIFS":
                    shared_mc._notify.f(v)
                    shared_mc._notify.f(w)
                    got = list(shared_mc())
                    want_res, want_log = [], [["f", [v], {}], ["f", [w], {}]]
                else:
                    shared_mc.f(v)
                    got = list(shared_mc())
                    want_res, want_log = [gen.normalise(r)], [["f", [v], {}]]
                if not gen.same(got, want_res) or not gen.same(gen.normalise([list(e) for e in reg.log]), gen.normalise(want_log)):
                    out.bad("C01/session/reused-multicall-differs", "session %r step %d (%s): results %r, server log %r, expected %r / %r" % (case, pos, name, got, reg.log, want_res, want_log))
            elif name == "BATCH":
                mc = jsonrpclib.MultiCall(proxy)
                mc.f(v)
                mc._notify.f(w)
                got = list(mc())
                if not gen.same(got, [gen.normalise(r)]) or len(reg.log) != 2:
                    out.bad("C01/session/batch-differs", "session %r step %d: batch results %r, log %r" % (case, pos, got, reg.log))
            elif name == "HELD":
                args, kwargs = build_args({"ns.f": "kw2", "a.b.c": "pos2", "f": "pos1"}[style], v, w)
                m = held[style.split(".")[0]]
                for seg in style.split(".")[1:]:
                    m = getattr(m, seg)
                got = m(*args, **kwargs)
                judge_call(out, "session", reg, style, args, kwargs, r, got, None)
            elif name == "CALL-SAMEID":  # a caller-supplied id: the request text, and here the reply text too, repeat verbatim
                reg.ret = leaves[7]
                got = proxy._request("f", [leaves[1]], rpcid="same")
                judge_call(out, "session", reg, "f", (leaves[1],), {}, leaves[7], got, None)
            elif name in ("NOTIFY", "NOTIFY-SAME"):
                if name == "NOTIFY-SAME":
                    v = leaves[1]
                got = proxy._notify.f(v)
                if got is not None or not gen.same(gen.normalise([list(e) for e in reg.log]), gen.normalise([["f", [v], {}]])):
                    out.bad("C01/session/notification-differs", "session %r step %d: returned %r, log %r" % (case, pos, got, reg.log))
            else:
                args, kwargs = build_args(style, v, w)
                got = get_method(proxy, name, False)(*args, **kwargs)
                judge_call(out, "session", reg, name, args, kwargs, r, got, None)
        except Exception as ex:
            out.bad("C01/session/raises-%s" % type(ex).__name__, "session %r step %d raised %r" % (case, pos, ex))
        if out.viols:
            break
    sent = [x[2] for x in t.sent][base:]
    replies = t.replies[base:]
    if hist.requests != sent or hist.responses != replies:
        out.bad("C01/history-differs-from-exchanged-texts", "session %r: history does not equal the exchanged texts in order" % (case,))
    if hist.request != (sent[-1] if sent else None) or hist.response != (replies[-1] if replies else None):
        out.bad("C01/history-differs-from-exchanged-texts", "session %r: History.request / History.response are not the latest exchanged texts" % (case,))
    return out


def leg_session(part, tier, shard, nshards):
    drive(part, "sessions", session_cases(tier), shard, nshards, check_session)


# -- MultiCall ----------------------------------------------------------------------------------

JOBS = [("f", "pos1"), ("ns.f", "kw1"), ("a.b.c", "pos2"), ("名前", "none"), ("N:f", "pos1"), ("N:with space", "kw2")]


def batch_cases(tier):
    leaves = gen.SMALL_LEAVES + [2 ** 53, -0.0, "\U0001F600", [1, [2]], {"k": {"a": None}}]
    for n in (1, 2, 3):
        for combo in itertools.product(range(len(JOBS)), repeat=n):
            if all(JOBS[j][0].startswith("N:") for j in combo):
                continue
            for vi in range(len(leaves)):
                if n == 3 and tier == "quick" and vi % 4:
                    continue
                for sv in (2.0, 1.0):
                    yield (combo, vi, sv)


def check_batch(case):
    combo, vi, sv = case
    leaves = gen.SMALL_LEAVES + [2 ** 53, -0.0, "\U0001F600", [1, [2]], {"k": {"a": None}}]
    out = Out(cls="multicall/%d" % len(combo))
    d, reg = loop_world(sv, True)
    t = LoopbackTransport(d)
    hist = History()
    proxy = jsonrpclib.ServerProxy("http://h/", transport=t, history=hist)
    mc = jsonrpclib.MultiCall(proxy)
    del reg.log[:]
    r = leaves[(vi + 2) % len(leaves)]
    reg.ret = r
    want_log, want_res = [], []
    for pos, j in enumerate(combo):
        jname, style = JOBS[j]
        notify = jname.startswith("N:")
        name = jname[2:] if notify else jname
        v = leaves[(vi + pos) % len(leaves)]
        w = leaves[(vi + pos + 5) % len(leaves)]
        args, kwargs = build_args(style, v, w)
        target = mc._notify if notify else mc
        m = target
        for seg in name.split("."):
            m = getattr(m, seg)
        m(*args, **kwargs)
        want_log.append((name, gen.normalise(args), gen.normalise(kwargs)))
        if not notify:
            want_res.append(gen.normalise(r))
    try:
        res = mc()
        got = [res[i] for i in range(len(res))]
        got_iter = list(res)
    except Exception as ex:
        return out.bad("C01/multicall/raises-%s" % type(ex).__name__, "batch %r raised %r" % (case, ex))
    if not gen.same(got, want_res) or not gen.same(got_iter, want_res):
        out.bad("C01/multicall/results-differ", "batch %r: results %r / %r, expected %r" % (case, got, got_iter, want_res))
    if not gen.same(gen.normalise([list(e) for e in reg.log]), gen.normalise([list(e) for e in want_log])):
        out.bad("C01/multicall/invocations-differ", "batch %r: server log %r, expected %r" % (case, reg.log, want_log))
    if hist.requests != [s[2] for s in t.sent] or hist.responses != t.replies or len(hist.requests) != 1:
        out.bad("C01/history-differs-from-exchanged-texts", "batch %r: history %r / %r" % (case, hist.requests, hist.responses))
    return out


def leg_batch(part, tier, shard, nshards):
    drive(part, "multicall", batch_cases(tier), shard, nshards, check_batch)


# -- real servers over kernel sockets -------------------------------------------------------------------

_SERVERS = {}


def real_server(kind, family, sv, jc=True):
    key = (kind, family, sv, jc)
    if key in _SERVERS:
        return _SERVERS[key]
    cfg = Config(version=sv, use_jsonclass=jc)
    cls = SimpleJSONRPCServer if kind == "simple" else PooledJSONRPCServer
    tmp = None
    if family == "tcp":
        srv = cls(("127.0.0.1", 0), logRequests=False, config=cfg)
        url = "http://127.0.0.1:%d/" % srv.server_address[1]
    else:
        tmp = tempfile.mkdtemp(prefix="c01u", dir=os.environ.get("VERIF_SCRATCH", "/var/tmp"))
        path = os.path.join(tmp, "s")
        srv = cls(path.encode() if family == "unix-bytes" else path, logRequests=False, config=cfg, address_family=socket.AF_UNIX)
        url = "unix+http://" + path
    reg = Registry(srv)
    th = threading.Thread(target=srv.serve_forever, kwargs={"poll_interval": 0.05}, daemon=True)
    th.start()
    _SERVERS[key] = (srv, reg, url, th, tmp)
    return _SERVERS[key]


def stop_servers():
    for key, (srv, reg, url, th, tmp) in list(_SERVERS.items()):
        try:
            srv.shutdown()
            srv.server_close()
        except Exception:
            pass
        th.join(5)
        if tmp:
            shutil.rmtree(tmp, ignore_errors=True)
        del _SERVERS[key]


JC_DATA = [{"__jsonclass__": ["decimal.Decimal", ["1.5"]]}, [{"k": {"__jsonclass__": ["no.such", []], "x": 1}}], {"__jsonclass__": 5}]


def jcoff_cases(tier):
    """Translation disabled on both sides: '__jsonclass__' members are ordinary data and must travel verbatim."""
    for kind in ("simple", "pooled"):
        for family in ("tcp", "unix"):
            for ver in VERSIONS:
                for i in range(len(JC_DATA)):
                    for style in ("pos1", "kw1"):
                        yield (kind, family, ver, style, i)
    for ver in VERSIONS:
        for i in range(len(JC_DATA)):
            for style in ("pos1", "kw2"):
                yield ("loopback", "-", ver, style, i)


def check_jcoff(case):
    kind, family, (cv, sv), style, i = case
    v = JC_DATA[i]
    out = Out(cls="translation-off/%s" % kind)
    if kind == "loopback":
        d, reg = loop_world(sv, False)
        proxy = jsonrpclib.ServerProxy("http://h/", transport=LoopbackTransport(d), version=cv, config=Config(version=cv, use_jsonclass=False))
    else:
        srv, reg, url, th, tmp = real_server(kind, family, sv, False)
        proxy = jsonrpclib.ServerProxy(url, version=cv, config=Config(version=cv, use_jsonclass=False))
    args, kwargs = build_args(style, v, v)
    del reg.log[:]
    reg.ret = v
    got, exc = None, None
    try:
        got = proxy.f(*args, **kwargs)
    except Exception as ex:
        exc = ex
    finally:
        try:
            proxy("close")()
        except Exception:
            pass
    judge_call(out, "translation-off-%s" % kind, reg, "f", args, kwargs, v, got, exc)
    return out


def leg_jcoff(part, tier, shard, nshards):
    try:
        drive(part, "translation-off", jcoff_cases(tier), shard, nshards, check_jcoff)
    finally:
        stop_servers()


def net_cases(tier):
    # a Unix-socket server whose address is given as bytes
    for kind in ("simple", "pooled"):
        for ver in (VERSIONS[0], VERSIONS[3]):
            for i in (0, 5, 24):
                yield (kind, "unix-bytes", ver, NAMES[i % len(NAMES)], "pos1", i)


def _net_cases(tier):
    vals = list(gen.LEAVES) + [[1, [2, {"k": None}]], {"a": [0.0, -0.0], "é": {"": "€"}}, [[], {}, ""], {"id": 1, "result": None, "error": {"code": 1}},
                               ["a" * 1500 + "é"], {"k": "\U0001F600" * 300}, [" " * 2500], {"k": "a b  " * 500}]
    for kind in ("simple", "pooled"):
        for family in ("tcp", "unix"):
            for ver in VERSIONS:
                for i, v in enumerate(vals):
                    name = NAMES[i % len(NAMES)]
                    for style in (("pos1", "kw2") if tier == "quick" else STYLES):
                        yield (kind, family, ver, name, style, i)


def check_net(case):
    kind, family, (cv, sv), name, style, i = case
    vals = list(gen.LEAVES) + [[1, [2, {"k": None}]], {"a": [0.0, -0.0], "é": {"": "€"}}, [[], {}, ""], {"id": 1, "result": None, "error": {"code": 1}},
                               ["a" * 1500 + "é"], {"k": "\U0001F600" * 300}, [" " * 2500], {"k": "a b  " * 500}]
    v = vals[i]
    w = vals[(i * 3 + 1) % len(vals)]
    r = vals[(i * 5 + 2) % len(vals)]
    out = Out(cls="%s-%s/c%s-s%s" % (kind, family, cv, sv))
    srv, reg, url, th, tmp = real_server(kind, family, sv)
    hist = History()
    proxy = jsonrpclib.ServerProxy(url, version=cv, history=hist)
    args, kwargs = build_args(style, v, w)
    del reg.log[:]
    reg.ret = r
    got, exc = None, None
    try:
        got = get_method(proxy, name, False)(*args, **kwargs)
    except Exception as ex:
        exc = ex
    finally:
        try:
            proxy("close")()
        except Exception:
            pass
    judge_call(out, "%s-%s" % (kind, family), reg, name, args, kwargs, r, got, exc)
    if len(hist.requests) != 1 or len(hist.responses) != 1:
        out.bad("C01/history-differs-from-exchanged-texts", "%r: history has %d requests, %d responses" % (case, len(hist.requests), len(hist.responses)))
    return out


def leg_net(part, tier, shard, nshards):
    try:
        drive(part, "kernel-sockets", itertools.chain(net_cases(tier), _net_cases(tier)), shard, nshards, check_net)
    finally:
        stop_servers()


# -- Python-side value and callable kinds ------------------------------------------------------------------
# JSON-representable values are not only exact dict/list/str/int objects: subclasses of the container and scalar types are
# JSON-representable too (json.dumps accepts them), and registered callables are not only Python functions.

import collections
import functools
import math
import operator

_Point = collections.namedtuple("_Point", "x y")


class _MyDict(dict):
    pass


class _MyList(list):
    pass


class _MyStr(str):
    pass


class _MyInt(int):
    pass


class _Callable(object):
    def __call__(self, a, b=2):
        return [a, b]

    def meth(self, a):
        return {"a": a}

    @staticmethod
    def smeth(a):
        return a

    @classmethod
    def cmeth(cls, a):
        return [a]


def _pyvalues():
    dd = collections.defaultdict(list)
    dd["k"].append(1)
    return [
        collections.OrderedDict([("b", 1), ("a", [2])]), collections.OrderedDict(), collections.Counter("aab"), dd, _MyDict(k=1), _MyDict(),
        _MyList([1, "a"]), _MyList(), (1, "a"), (), _Point(1, [2]), _MyStr("s"), _MyStr(""), _MyInt(7), _MyInt(0),
        [collections.OrderedDict([("k", (1, 2))])], {"k": _Point(0, "")}, [_MyDict(a=_MyList([_MyStr("x")]))], {"o": collections.OrderedDict(z=None)},
        " " * 3000, ["a b " * 700], {" k ": " v "}, "\t \n" * 400,
    ]


PYVALUES = _pyvalues()


def _inject(fn):
    """A decorator that supplies the first argument itself: the wrapper's calling convention differs from the signature functools.wraps advertises."""
    @functools.wraps(fn)
    def wrapper(*a, **k):
        return fn("ctx", *a, **k)
    return wrapper


@_inject
def _lookup(ctx, key, default=None):
    return [ctx, key, default]


def _swallow(fn):
    """A decorator whose wrapper accepts more than the wrapped function declares (it drops a trailing option)."""
    @functools.wraps(fn)
    def wrapper(*a, **k):
        k.pop("trace", None)
        return fn(*a[:1], **k)
    return wrapper


@_swallow
def _one(a=0):
    return {"a": a}


def _lying(a, b):
    return [a, b]


_lying.__signature__ = inspect.signature(lambda: None)  # an advertised signature that does not describe the function


def _posonly(a, b=5, /):
    return [a, b]


def _kwonly(*, a, b=6):
    return [a, b]

CALLABLES = [
    # (name, callable, positional argument lists to try)
    ("max", max, [[3, 9, 4], [[1, 5, 2]]]),
    ("min", min, [[3, 9, 4], ["b", "a"]]),
    ("pow", pow, [[2, 5], [2, 5, 7]]),
    ("len", len, [[[1, 2, 3]], ["abc"], [{}]]),
    ("sorted", sorted, [[[3, 1, 2]]]),
    ("abs", abs, [[-2], [1.5]]),
    ("str", str, [[5], [], [None]]),
    ("int", int, [["12"], [7.9], []]),
    ("dict", dict, [[], [[["a", 1]]]]),
    ("list", list, [["ab"], []]),
    ("join", "-".join, [[["a", "b"]]]),
    ("upper", "abc".upper, [[]]),
    ("hypot", math.hypot, [[3, 4]]),
    ("add", operator.add, [[1, 2], ["a", "b"], [[1], [2]]]),
    ("itemgetter", operator.itemgetter(1), [[[5, 6, 7]]]),
    ("partial", functools.partial(divmod, 17), [[5]]),
    ("lambda", lambda *a: list(a), [[], [1], [1, None]]),
    ("instance", _Callable(), [[1], [1, 3]]),
    ("bound", _Callable().meth, [[1]]),
    ("static", _Callable.smeth, [[{"k": 1}]]),
    ("classm", _Callable.cmeth, [[0]]),
    ("cls", _Callable, None),
    ("divmod", divmod, [[7, 2]]),
    ("isinstance-free", bool, [[0], [[]], ["x"]]),
    # argument lists and (dict entries) keyword maps; what counts is the callable's behaviour, not the signature it advertises
    ("injecting-decorator", _lookup, [["k"], ["k", 1], {"key": "k"}, {"key": "k", "default": 0}]),
    ("swallowing-decorator", _one, [[], [1], [1, 2], {"a": 1, "trace": True}]),
    ("lying-signature", _lying, [[1, 2], {"a": 1, "b": 2}]),
    ("positional-only", _posonly, [[1], [1, 2]]),
    ("keyword-only", _kwonly, [{"a": 1}, {"a": 1, "b": 2}]),
    ("lru-cached", functools.lru_cache(maxsize=2)(lambda a, b=1: [a, b]), [[1], [1, 2], {"a": 3}, [1]]),
]

_PYW = {}


def py_world(sv):
    if sv not in _PYW:
        d = SimpleJSONRPCDispatcher(config=Config(version=sv))
        reg = Registry(d)
        for name, fn, argl in CALLABLES:
            if argl is not None:
                d.register_function(fn, "c." + name)
        _PYW[sv] = (d, reg)
    return _PYW[sv]


def pyvalue_cases(tier):
    for i in range(len(PYVALUES)):
        for ver in VERSIONS:
            for style in ("pos1", "kw1", "pos2", "kw2"):
                for where in ("arg", "ret"):
                    yield ("value", i, ver, style, where)
    for cp in list(range(0x20, 0x7f)) + [0xe9, 0x130, 0x2028, 0x3042, 0xff0e, 0x1f600, 0x0, 0xa, 0xd800]:
        for ver in (VERSIONS[0], VERSIONS[3]):
            for pos in ("mid", "first", "last"):
                yield ("name", cp, ver, pos, "plain")
    for i, (name, fn, argl) in enumerate(CALLABLES):
        for j in range(len(argl or ())):
            for ver in VERSIONS:
                for form in ("plain", "batch", "notify"):
                    yield ("callable", i, ver, j, form)


def check_pyvalue(case):
    what, i, (cv, sv), x, y = case
    out = Out(cls="python-%s/c%s-s%s" % (what, cv, sv))
    d, reg = py_world(sv)
    t = LoopbackTransport(d)
    proxy = jsonrpclib.ServerProxy("http://h/", transport=t, version=cv)
    del reg.log[:]
    if what == "value":
        v = PYVALUES[i]
        plain = [1, "é"]
        args, kwargs = build_args(x, v if y == "arg" else plain, plain)
        reg.ret = v if y == "ret" else plain
        got, exc = None, None
        try:
            got = proxy.f(*args, **kwargs)
        except Exception as ex:
            exc = ex
        return judge_call(out, "python-values", reg, "f", args, kwargs, reg.ret, got, exc)
    if what == "name":
        # one registered name per code point: the callable registered under exactly that name is the one invoked
        c = chr(i)
        name = {"mid": "m" + c + "x", "first": c + "mx", "last": "mx" + c}[x]
        if name.startswith("_") or "." in name:
            out.nontrivial = False  # private-looking names and dotted paths have their own rules (NAMES covers them)
            return out
        d2 = SimpleJSONRPCDispatcher(config=Config(version=sv))
        calls = []
        d2.register_function(lambda *a: calls.append(a) or "R", name)
        d2.register_function(lambda *a: calls.append(("WRONG",) + a) or "W", "mx")
        proxy = jsonrpclib.ServerProxy("http://h/", transport=LoopbackTransport(d2), version=cv)
        try:
            got = getattr(proxy, name)(1)
        except Exception as ex:
            return out.bad("C01/python-names/call-raises-%s" % type(ex).__name__, "method name %r (U+%04X) raised %r" % (name, i, ex))
        if got != "R" or calls != [(1,)]:
            out.bad("C01/python-names/wrong-callable-or-result", "method name %r (U+%04X): result %r, invocations %r" % (name, i, got, calls))
        return out
    name, fn, argl = CALLABLES[i]
    args = argl[x]
    args, kwargs = ((), args) if isinstance(args, dict) else (args, {})
    want = gen.normalise(fn(*args, **kwargs))
    try:
        if y == "plain":
            got = getattr(proxy.c, name)(*args, **kwargs)
        elif y == "batch":
            mc = jsonrpclib.MultiCall(proxy)
            getattr(mc.c, name)(*args, **kwargs)
            mc.f(1)
            got = list(mc())[0]
        else:
            got = getattr(proxy._notify.c, name)(*args, **kwargs)
            want = None
    except Exception as ex:
        return out.bad("C01/python-callables/call-raises-%s" % type(ex).__name__, "registered %s called with %r raised %r" % (name, args or kwargs, ex))
    if not gen.same(got, want):
        out.bad("C01/python-callables/return-value-changed", "registered %s%r: client got %r, the callable returns %r" % (name, tuple(args) or kwargs, got, want))
    return out


def leg_pyvalues(part, tier, shard, nshards):
    drive(part, "python-values", pyvalue_cases(tier), shard, nshards, check_pyvalue)


LEGS = {"python-values": leg_pyvalues, "loopback": leg_loop, "sessions": leg_session, "multicall": leg_batch, "kernel-sockets": leg_net, "translation-off": leg_jcoff}

META = {
    "technique": "bounded-exhaustive enumeration of names, argument styles, JSON values, call forms and protocol versions through the real client and "
    "dispatcher (loopback) and through real servers over kernel TCP/Unix sockets, with a recording callable and type-exact comparison",
    "rule": "loopback: 9 method names (identifier, dotted registered name, instance attribute path, non-ASCII, with space, hyphen, underscore, keyword) x 5 "
    "argument styles x 23 leaf values x client/server versions {1.0,2.0}^2 x translation on/off x {plain, dotted chain}; plus every JSON value of depth <=1 "
    "(thorough <=2, capped at 300000) width <=2 as argument and return value; sessions: every sequence of 3 (thorough 4; 5 over the first 11) steps over {3 calls, batch, notification, "
    "re-registration of a name, History.clear(), reused MultiCall, the same notification text, the same caller-supplied id, method objects held since the start of the session} on one proxy with one History (the newest registration must be the one invoked); translation-off: payloads with "
    "'__jsonclass__' members as plain data through loopback and real servers configured with use_jsonclass=False; multicall: every batch of <=3 jobs over 6 job kinds (calls and notifications) x "
    "values x server version; kernel-sockets: SimpleJSONRPCServer and PooledJSONRPCServer x TCP/Unix x versions x 29 values (leaves, nested, >1 KiB "
    "multi-byte, >2 KiB of blanks); python-values: 23 values of non-exact Python types (OrderedDict, Counter, defaultdict, dict/list/str/int subclasses, tuples, "
    "namedtuples, blank-rich long strings) as argument and as return value x styles x versions, and 29 registered callables that are not plain functions "
    "(builtins, bound builtin methods, operator/functools objects, callable instances, bound/static/class methods, lambdas, decorator wrappers whose calling convention differs from the advertised signature, positional-only and keyword-only parameters) x argument lists x {call, batch, "
    "notification}, and one registered method name per printable ASCII character and 9 other code points (first, middle, last position); every case non-trivial",
    "bounds": {"quick": {"value_depth": 1, "batch_len": 3}, "thorough": {"value_depth": 2, "batch_len": 3}},
    "assumptions": ["fault-free network (property domain)", "payloads contain no '__jsonclass__' keys when translation is on", "stdlib json backend"],
}


def replay(case):
    c = eval(case["case"], {"__builtins__": {}}, {})
    if case["leg"] == "loopback":
        return check_loop(c).viols
    if case["leg"] == "python-values":
        return check_pyvalue(c).viols
    if case["leg"] == "multicall":
        return check_batch(c).viols
    if case["leg"] == "sessions":
        return check_session(c).viols
    if case["leg"] == "translation-off":
        try:
            return check_jcoff(c).viols
        finally:
            stop_servers()
    try:
        return check_net(c).viols
    finally:
        stop_servers()
