"""C18 - custom headers compose by recency and are restored after a block.

E3: every stack of <=3 (thorough <=4) header dictionaries over an alphabet of
case variants, protected names and string / non-string values is pushed
(constructor headers + nested _additional_headers blocks) and the request is
observed on the wire by a scripted peer behind the real HTTPConnection.
E2: every history of <=5 (thorough <=6) events over {enter block, leave block
normally, leave block by an exception, call, notification, batch} on one proxy.
"""
import itertools

import jsonrpclib
from jsonrpclib.config import Config

from mc import env
from mc.core import Out, drive

DICTS = [
    {"X-A": "1"}, {"x-a": "2"}, {"X-a": 3}, {"X-B": 4.5}, {"X-A": "5", "X-B": "6"}, {"x-a": None}, {"X-A": True},
    {"User-Agent": "ua-1"}, {"user-agent": "ua-2"}, {"Content-Type": "text/evil"}, {"content-type": "x/y", "X-A": "7"},
    {"CONTENT-LENGTH": "3"}, {"Content-Length": 0, "x-b": "8"}, {},
    # thorough only below
    {"X-A": 0}, {"x-A": ""}, {"X-A": False}, {"X-B": "b2", "x-a": "9"}, {"USER-AGENT": 10}, {"X-C": "c"}, {"x-c": "C2", "X-B": None},
    {"content-length": "999", "content-type": "a/b"}, {"X-A": "1"}, {"Accept-Encoding": "identity"}, {"Host": "other.test"},
    {"X-A": " spaced "}, {"x-b": 2 ** 40}, {"X-D": 1.0}, {"x-d": "d"}, {"Connection": "close"},
]
QUICK_N = 17
KINDS = ["call", "notify", "batch"]
CFG = Config(content_type="application/x-verif", user_agent="verif-agent/1")
READONLY = ("content-length", "content-type")


def ref_headers(stack):
    eff = {}
    for d in stack:
        for k, v in d.items():
            eff[str(k).lower()] = str(v)
    return eff


def do_request(proxy, kind):
    if kind == "call":
        return proxy.echo("t")
    if kind == "notify":
        return proxy._notify.echo("t")
    mc = jsonrpclib.MultiCall(proxy)
    mc.echo("t1")
    mc._notify.echo("t2")
    return list(mc())


def judge_wire(req, stack, where):
    """Compares the header lines of one recorded request with the reference."""
    v = []
    eff = ref_headers(stack)
    lines = [(k.lower(), val) for k, val in req.headers]
    for name, want in eff.items():
        if name in READONLY:
            continue
        got = [val for k, val in lines if k == name]
        if name in ("host", "accept-encoding", "connection"):
            # names the HTTP layer emits itself: the pushed value must be among the lines, nothing more is promised
            if want.strip() not in [g.strip() for g in got]:
                v.append(("C18/pushed-header-missing", "%s: header %s=%r not sent; lines %r" % (where, name, want, lines)))
            continue
        if len(got) != 1 or got[0].strip() != want.strip():
            kind = "superseded-or-wrong-value" if got else "pushed-header-missing"
            if len(got) > 1:
                kind = "header-sent-more-than-once"
            v.append(("C18/%s" % kind, "%s: header %s sent as %r, expected exactly [%r] (stack %r)" % (where, name, got, want, stack)))
    cl = [val for k, val in lines if k == "content-length"]
    if len(cl) != 1 or cl[0] != str(len(req.body)):
        v.append(("C18/content-length-overridden", "%s: Content-Length lines %r for a body of %d bytes (stack %r)" % (where, cl, len(req.body), stack)))
    ct = [val for k, val in lines if k == "content-type"]
    if ct != [CFG.content_type]:
        v.append(("C18/content-type-overridden", "%s: Content-Type lines %r, configured %r (stack %r)" % (where, ct, CFG.content_type, stack)))
    ua = [val for k, val in lines if k == "user-agent"]
    want_ua = eff.get("user-agent", CFG.user_agent)
    if ua != [want_ua]:
        v.append(("C18/user-agent", "%s: User-Agent lines %r, expected [%r] (stack %r)" % (where, ua, want_ua, stack)))
    return v


def stack_cases(tier):
    n = len(DICTS) if tier == "thorough" else QUICK_N
    idx = list(range(n))
    maxlen = 4 if tier == "thorough" else 3
    for ctor in [None] + idx:
        for k in range(0, (maxlen if ctor is None else maxlen - 1) + 1):
            for blocks in itertools.product(idx, repeat=k):
                if tier == "thorough" and k >= 3 and (ctor is not None or any(b >= QUICK_N for b in blocks)) and any(b >= 8 for b in blocks):
                    continue
                for kind in (KINDS if k <= 1 else ("call",)):
                    yield (ctor, blocks, kind)


def check_stack(case):
    ctor, blocks, kind = case
    out = Out(cls="depth%d/%s" % (len(blocks) + (ctor is not None), kind))
    peer = env.ScriptPeer()
    stack = ([DICTS[ctor]] if ctor is not None else [{}]) + [DICTS[b] for b in blocks]
    with env.client_net(peer):
        proxy = jsonrpclib.ServerProxy("http://h.test:80/p", headers=DICTS[ctor] if ctor is not None else None, config=CFG)
        t = proxy("transport")
        base = list(t.additional_headers)
        try:
            snapshots = []
            cms = []
            for b in blocks:
                snapshots.append(list(t.additional_headers))
                cm = proxy._additional_headers(DICTS[b])
                cm.__enter__()
                cms.append(cm)
            do_request(proxy, kind)
            for i in range(len(cms) - 1, -1, -1):
                cms[i].__exit__(None, None, None)
                if not same_stack(t.additional_headers, snapshots[i]):
                    out.bad("C18/headers-not-restored-after-block", "stack %r: after leaving block %d the stack is %r, before entering it was %r"
                            % (stack, i, t.additional_headers, snapshots[i]))
        except Exception as ex:
            return out.bad("C18/raises-%s" % type(ex).__name__, "stack %r (%s) raised %r" % (stack, kind, ex))
    if not peer.requests:
        return out.bad("C18/no-request-sent", "stack %r" % (stack,))
    for sig, detail in judge_wire(peer.requests[-1], stack, "stack/%s" % kind):
        out.bad(sig, detail)
    return out


def same_stack(a, b):
    return len(a) == len(b) and all(x is y or x == y for x, y in zip(a, b)) and [id(x) for x in a] == [id(y) for y in b]


# -- histories ---------------------------------------------------------------------------------

HD = [{"X-A": "1"}, {"x-a": "2"}, {"X-B": 3, "User-Agent": "ua"}, {"X-A": 1}, {"X-A": True}]  # 1 == True, yet str() differs
EVENTS = ["E0", "E1", "E2", "E3", "E4", "L", "X", "C", "N", "B", "M"]  # M: the application adds a name to the dictionary it pushed last, while inside the block


class Boom(Exception):
    pass


def history_cases(tier):
    depth = 6 if tier == "thorough" else 5

    def rec(prefix, nest):
        if prefix and prefix[-1] in ("C", "N", "B", "L", "X"):
            yield tuple(prefix)
        if len(prefix) >= depth:
            return
        for e in EVENTS:
            if e in ("L", "X", "M") and nest == 0:
                continue
            if e == "M" and prefix[-1] == "M":
                continue
            if e.startswith("E") and nest >= 3:
                continue
            if e in ("C", "N", "B") and prefix and prefix[-1] in ("C", "N", "B"):
                continue
            for x in rec(prefix + [e], nest + (1 if e.startswith("E") else (-1 if e in ("L", "X") else 0))):
                yield x

    for ctor in (None, 0):
        for h in rec([], 0):
            yield (ctor, h)


def check_history(case):
    ctor, hist = case
    out = Out(cls="history/%d" % len(hist))
    peer = env.ScriptPeer()
    with env.client_net(peer):
        proxy = jsonrpclib.ServerProxy("http://h.test:80/p", headers=HD[ctor] if ctor is not None else None, config=CFG)
        t = proxy("transport")
        model = [HD[ctor] if ctor is not None else {}]
        cms = []
        snaps = []
        pushed = []
        for step, e in enumerate(hist):
            try:
                if e.startswith("E"):
                    d = dict(HD[int(e[1])])
                    snaps.append(list(t.additional_headers))
                    cm = proxy._additional_headers(d)
                    cm.__enter__()
                    cms.append(cm)
                    pushed.append(d)
                    model.append(dict(d))  # the content at the time of the push; whether a later addition is sent is not judged, restoring is
                elif e == "M":
                    pushed[-1]["X-Mut"] = "m%d" % step
                elif e in ("L", "X"):
                    cm = cms.pop()
                    before = snaps.pop()
                    model.pop()
                    pushed.pop()
                    if e == "L":
                        cm.__exit__(None, None, None)
                    else:
                        ex = Boom("inside block")
                        try:
                            raise ex
                        except Boom:
                            swallowed = cm.__exit__(Boom, ex, ex.__traceback__)
                        if swallowed:
                            out.bad("C18/block-swallows-exception", "history %r: the block swallowed the exception" % (hist,))
                    if not same_stack(t.additional_headers, before):
                        out.bad("C18/headers-not-restored-after-block/%s" % ("exception" if e == "X" else "normal"),
                                "history %r step %d: stack after leaving is %r, before entering it was %r" % (hist, step, t.additional_headers, before))
                        break
                else:
                    n0 = len(peer.requests)
                    do_request(proxy, {"C": "call", "N": "notify", "B": "batch"}[e])
                    if len(peer.requests) != n0 + 1:
                        out.bad("C18/no-request-sent", "history %r step %d" % (hist, step))
                        break
                    for sig, detail in judge_wire(peer.requests[-1], model, "history %r step %d" % (hist, step)):
                        out.bad(sig, detail)
                    if out.viols:
                        break
            except Exception as ex:
                out.bad("C18/raises-%s" % type(ex).__name__, "history %r step %d (%s) raised %r" % (hist, step, e, ex))
                break
        # leave the blocks still open so that no generator is finalised by the garbage collector later
        while cms:
            try:
                cms.pop().__exit__(None, None, None)
            except Exception:
                pass
    return out


# -- beyond the small scope: deep stacks, long histories, large dictionaries, mapping subclasses and unusual value types --------

import decimal

from mc import gen


class _Str(object):
    def __str__(self):
        return "object-with-str"


def _xdicts():
    return [
        gen.OrderedDict([("X-A", "o1"), ("X-B", "o2")]), gen.MyDict({"x-a": "m1"}), {"X-A": gen.MyStr("ms")}, {"x-b": gen.MyInt(5)},
        {"X-A": decimal.Decimal("1.50")}, {"X-C": _Str()}, {"X-A": 1e300}, {"X-B": -0.0}, {"X-A": (1, 2)}, {"X-A": "v" * 5000},
        {"X-H%d" % i: "h%d" % i for i in range(40)}, {"x-h%d" % i: i for i in range(0, 40, 3)}, {"X-" + "n" * 200: "long-name"},
        gen.OrderedDict([("User-Agent", "ua-o")]), {"X-A": "1"}, {"x-a": "2"},
    ]


XD = _xdicts()


def extended_cases(tier):
    for i in range(len(XD)):
        for j in range(len(XD)):
            for kind in ("call", "batch"):
                yield ("pair", i, j, kind)
    for depth in (5, 12, 40):
        for start in range(len(XD)):
            yield ("deep", depth, start, "call")
    # the URL carries credentials (the HTTP layer derives an Authorization header from them): a pushed Authorization header supersedes it
    for auth in ({"Authorization": "Bearer tok"}, {"authorization": "x"}, {"AUTHORIZATION": 5}, {"X-A": "1"}):
        for where in ("ctor", "block", "both"):
            for kind in KINDS:
                yield ("cred", auth, where, kind)
    # two requests with nothing in between but block exits and entries: stack s1, request, unwind u levels, stack s2 on top, request
    idx = range(len(HD))
    stacks = [()] + [(a,) for a in idx] + [(a, b) for a in idx for b in idx] + ([(a, b, c) for a in idx for b in idx for c in idx] if tier == "thorough" else
                                                                                  [(a, b, c) for a in (0, 1, 2) for b in (1, 2, 3) for c in (0, 3, 4)])
    for s1 in stacks:
        if not s1:
            continue
        for keep in range(len(s1)):
            for s2 in stacks:
                if len(s2) + keep > 3 or (not s2 and keep == len(s1)):
                    continue
                if tier == "quick" and len(s1) + len(s2) > 4:
                    continue
                yield ("two-stacks", s1, keep, s2)
    # a proxy built (with constructor headers) in one thread and used from another one
    for i in (0, 2, 13, 14):
        for kind in KINDS:
            yield ("other-thread", i, kind, None)
    # configured User-Agent / content type values on both sides of a truthiness test
    for ua in ("", "0", " ", "ua/1 (x; y)"):
        for where in ("ctor-arg", "attribute", "copy"):
            for kind in ("call", "batch"):
                yield ("config-ua", ua, where, kind)
    # header dictionaries built on the fly and dropped after their block (a later dictionary may reuse the address of a freed one)
    for n in (3, 50):
        for kind in ("call", "notify"):
            yield ("temporaries", n, kind, None)
    # blocks left through exceptions outside the Exception hierarchy
    for exc in ("KeyboardInterrupt", "SystemExit", "GeneratorExit", "BaseException"):
        for depth in (1, 2):
            yield ("base-exit", exc, depth, None)
    for n in ((60, 400) if tier == "quick" else (60, 400, 5000)):
        for mode in ("normal", "exception", "mixed", "nested"):
            for ctor in (None, 14):
                yield ("long", n, mode, ctor)


def check_extended(case):
    what, a, b, c = case
    out = Out(cls="extended/" + what)
    peer = env.ScriptPeer()
    with env.client_net(peer):
        try:
            if what == "pair":
                proxy = jsonrpclib.ServerProxy("http://h.test:80/p", headers=XD[a], config=CFG)
                with proxy._additional_headers(XD[b]):
                    do_request(proxy, c)
                model = [XD[a], XD[b]]
            elif what == "cred":
                proxy = jsonrpclib.ServerProxy("http://user:pw@h.test:80/p", headers=a if b in ("ctor", "both") else None, config=CFG)
                model = [{"Authorization": "Basic dXNlcjpwdw=="}]
                if b in ("ctor", "both"):
                    model.append(a)
                if b in ("block", "both"):
                    d = dict(a) if b == "block" else {k: "second-%s" % v for k, v in a.items()}
                    model.append(d)
                    with proxy._additional_headers(d):
                        do_request(proxy, c)
                else:
                    do_request(proxy, c)
            elif what == "two-stacks":
                proxy = jsonrpclib.ServerProxy("http://h.test:80/p", headers=HD[0], config=CFG)
                cms = []
                for i in a:
                    cm = proxy._additional_headers(HD[i])
                    cm.__enter__()
                    cms.append(cm)
                do_request(proxy, "call")
                for sig, detail in judge_wire(peer.requests[-1], [HD[0]] + [HD[i] for i in a], "first stack of %r" % (case,)):
                    out.bad(sig, detail)
                while len(cms) > b:
                    cms.pop().__exit__(None, None, None)
                for i in c:
                    cm = proxy._additional_headers(HD[i])
                    cm.__enter__()
                    cms.append(cm)
                do_request(proxy, "call")
                model = [HD[0]] + [HD[i] for i in a[:b]] + [HD[i] for i in c]
                for sig, detail in judge_wire(peer.requests[-1], model, "second stack of %r" % (case,)):
                    out.bad(sig, detail)
                while cms:
                    cms.pop().__exit__(None, None, None)
                return out
            elif what == "other-thread":
                import threading
                proxy = jsonrpclib.ServerProxy("http://h.test:80/p", headers=XD[a], config=CFG)
                errs = []

                def use():
                    try:
                        with proxy._additional_headers({"X-T": "t"}):
                            do_request(proxy, b)
                    except Exception as ex:
                        errs.append(ex)
                th = threading.Thread(target=use)
                th.start()
                th.join(30)
                if errs:
                    return out.bad("C18/raises-%s" % type(errs[0]).__name__, "%r raised %r in the second thread" % (case, errs[0]))
                model = [XD[a], {"X-T": "t"}]
            elif what == "config-ua":
                if b == "ctor-arg":
                    cfg = Config(content_type="application/x-verif", user_agent=a)
                elif b == "attribute":
                    cfg = Config(content_type="application/x-verif")
                    cfg.user_agent = a
                else:
                    cfg = Config(content_type="application/x-verif", user_agent=a).copy()
                proxy = jsonrpclib.ServerProxy("http://h.test:80/p", config=cfg)
                do_request(proxy, c)
                ua = [v for k, v in peer.requests[-1].headers if k.lower() == "user-agent"]
                if [x.strip() for x in ua] != [a.strip()]:
                    out.bad("C18/user-agent", "%r: User-Agent lines %r, the configured one is %r" % (case, ua, a))
                return out
            elif what == "temporaries":
                proxy = jsonrpclib.ServerProxy("http://h.test:80/p", config=CFG)
                first = len(peer.requests)
                # nothing else happens between two blocks: the dictionary of a block is unreferenced as soon as the block is left
                for k in range(a):
                    with proxy._additional_headers({"X-Request-Id": "req-%d" % k}):
                        do_request(proxy, b)
                for k in range(a):
                    with proxy._additional_headers({"X-K%d" % (k % 3): str(k)}):
                        do_request(proxy, b)
                for k in range(2 * a):
                    want = {"X-Request-Id": "req-%d" % k} if k < a else {"X-K%d" % ((k - a) % 3): str(k - a)}
                    for sig, detail in judge_wire(peer.requests[first + k], [{}, want], "temporary dictionary #%d" % k):
                        out.bad(sig, detail)
                    stale = [h for h, v in peer.requests[first + k].headers if h.lower().startswith("x-") and h.lower() not in [n.lower() for n in want]]
                    if stale:
                        out.bad("C18/headers-not-restored-after-block/normal", "%r: request #%d carries headers of an earlier block: %r" % (case, k, stale))
                    if out.viols:
                        break
                do_request(proxy, b)
                model = [{}]
            elif what == "base-exit":
                proxy = jsonrpclib.ServerProxy("http://h.test:80/p", headers=XD[14], config=CFG)
                t = proxy("transport")
                base = list(t.additional_headers)
                exc_cls = {"KeyboardInterrupt": KeyboardInterrupt, "SystemExit": SystemExit, "GeneratorExit": GeneratorExit, "BaseException": BaseException}[a]
                try:
                    with proxy._additional_headers(XD[1]):
                        if b == 2:
                            with proxy._additional_headers(XD[13]):
                                raise exc_cls("leaving")
                        raise exc_cls("leaving")
                except BaseException as ex:
                    if not isinstance(ex, exc_cls):
                        raise
                if not same_stack(t.additional_headers, base):
                    out.bad("C18/headers-not-restored-after-block/exception", "%r: stack after leaving through %s has %d entries, before entering it had %d"
                            % (case, a, len(t.additional_headers), len(base)))
                do_request(proxy, "call")
                model = [XD[14]]
            elif what == "deep":
                proxy = jsonrpclib.ServerProxy("http://h.test:80/p", config=CFG)
                t = proxy("transport")
                model, cms, snaps = [{}], [], []
                for k in range(a):
                    d = XD[(b + k * 5) % len(XD)]
                    snaps.append(list(t.additional_headers))
                    cm = proxy._additional_headers(d)
                    cm.__enter__()
                    cms.append(cm)
                    model.append(d)
                do_request(proxy, c)
                for sig, detail in judge_wire(peer.requests[-1], model, "%d nested blocks" % a):
                    out.bad(sig, detail)
                while cms:
                    cms.pop().__exit__(None, None, None)
                    model.pop()
                    if not same_stack(t.additional_headers, snaps.pop()):
                        out.bad("C18/headers-not-restored-after-block/normal", "%r: stack differs after leaving nested block %d" % (case, len(cms)))
                        break
                do_request(proxy, c)
            else:
                ctor = XD[c] if c is not None else None
                proxy = jsonrpclib.ServerProxy("http://h.test:80/p", headers=ctor, config=CFG)
                t = proxy("transport")
                base = list(t.additional_headers)
                for k in range(a):
                    d = XD[k % len(XD)]
                    if b == "nested":
                        with proxy._additional_headers(d):
                            with proxy._additional_headers(XD[(k + 3) % len(XD)]):
                                pass
                    elif b == "normal" or (b == "mixed" and k % 2):
                        with proxy._additional_headers(d):
                            pass
                    else:
                        try:
                            with proxy._additional_headers(d):
                                raise Boom("inside block %d" % k)
                        except Boom:
                            pass
                if not same_stack(t.additional_headers, base):
                    out.bad("C18/headers-not-restored-after-block/%s" % ("exception" if b == "exception" else "normal"),
                            "%r: after %d blocks the stack has %d entries, before the first it had %d" % (case, a, len(t.additional_headers), len(base)))
                do_request(proxy, "call")
                model = [ctor or {}]
        except Exception as ex:
            return out.bad("C18/raises-%s" % type(ex).__name__, "%r raised %r" % (case, ex))
    if not peer.requests:
        return out.bad("C18/no-request-sent", "%r" % (case,))
    for sig, detail in judge_wire(peer.requests[-1], model, "%r" % (case,)):
        out.bad(sig, detail[:600])
    return out


def leg_extended(part, tier, shard, nshards):
    drive(part, "extended", extended_cases(tier), shard, nshards, check_extended)


def leg_stacks(part, tier, shard, nshards):
    drive(part, "stacks", stack_cases(tier), shard, nshards, check_stack)


def leg_history(part, tier, shard, nshards):
    drive(part, "histories", history_cases(tier), shard, nshards, check_history)
    part.add_to_set("states", ("histories", shard))
    part.count("transitions", part.evals.get("histories", 0))


LEGS = {"stacks": leg_stacks, "histories": leg_history, "extended": leg_extended}

META = {
    "engine": "E2-fake-network-history-search+E3-small-scope-enumeration",
    "technique": "bounded-exhaustive enumeration of header stacks and block enter/leave histories; requests observed on the wire by a scripted peer "
    "behind the real HTTPConnection; reference merge by recency",
    "rule": "stacks: constructor headers (none or one of 17 dictionaries; thorough 30) + 0..2 nested blocks (thorough ..3), every combination with "
    "repetition, x {call, notification, batch}; dictionaries cover case variants of one name, non-string and falsy values, User-Agent and the protected "
    "names in several spellings; histories: every event sequence of length <=5 (thorough <=6) over {enter block d0..d4 (two of them equal under == but with different str() values), leave normally, leave by "
    "exception, call, notify, batch, the application adds a name to the dictionary it pushed last} with nesting <=3, with and without constructor headers; extended: every ordered pair of 16 further dictionaries (OrderedDict and dict subclass, values "
    "of str/int subclasses, Decimal, objects with __str__, huge floats, tuples, a 5000-character value, 40 names in one dictionary, a 200-character name) as "
    "constructor headers + block; two requests separated only by block exits and entries (stack, request, partial unwind, other stack, request) over the 5 history dictionaries up to depth 3; a proxy built in one thread and used from another; URLs with credentials x pushed Authorization headers (constructor / block / both); 3 and 50 consecutive blocks whose dictionaries "
    "are temporaries; blocks left through KeyboardInterrupt / SystemExit / GeneratorExit / BaseException; 5/12/40 nested blocks with restoration checked at every level; 60/400 (thorough 5000) consecutive blocks left normally, by "
    "exception, alternately, or nested in pairs, then a request; every case non-trivial",
    "bounds": {"quick": {"stack_depth": 3, "dicts": 17, "history_depth": 5}, "thorough": {"stack_depth": 4, "dicts": 30, "history_depth": 6}},
    "assumptions": [
        "one dictionary never contains two case variants of the same name (the property does not order members of one dictionary)",
        "header values are compared after stripping surrounding blanks (HTTP framing)",
        "for names the HTTP layer emits itself (Host, Accept-Encoding, Connection) only presence of the pushed value is required",
    ],
}


def replay(case):
    c = eval(case["case"], {"__builtins__": {}}, {})
    if case["leg"] == "stacks":
        return check_stack(c).viols
    if case["leg"] == "extended":
        return check_extended(c).viols
    return check_history(c).viols
