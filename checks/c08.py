"""C08 - class translation is inert when disabled and validates names before importing.

E3: every class-name string of length 0-3 over a 16-character alphabet (plus
every invalid character inserted at every position of a canary class name),
descriptor shapes of every JSON type, placements in requests and responses,
translation on/off, on the jsonclass.load, jsonrpc.loads and server sides.
Three independent detectors (wrapped __import__/import_module, an audit hook,
a canary module) observe any import or construction.
"""
import builtins
import importlib
import itertools
import json
import os
import sys

import jsonrpclib
from jsonrpclib import jsonclass
from jsonrpclib.config import Config
import jsonrpclib.jsonrpc as J

from mc import gen
from mc.core import Out, drive
from mc.ref import server as ref

REPO = os.path.dirname(os.path.dirname(os.path.abspath(jsonrpclib.__file__)))
CANARY_DIR = os.path.join(os.path.dirname(os.path.dirname(os.path.abspath(__file__))), "mc", "canary")

ALPHA = ["a", "Z", "0", "_", ".", " ", "-", "/", ":", ";", "\n", "\x00", "é", "٠", "ａ", "\U0001F600"]
VALID_CHARS = set("abcdefghijklmnopqrstuvwxyzABCDEFGHIJKLMNOPQRSTUVWXYZ0123456789_.")
INVALID_INSERT = [c for c in ALPHA if c not in VALID_CHARS] + ["é", "ª", "٠", "ǅ", "$", "\\", "\"", "'", "(", "*", "\t", "​", " ", "ß"]


def valid_name(name):
    """Reference predicate of the property: non-empty, only ASCII letters, digits, underscore and dot."""
    return isinstance(name, str) and name != "" and all(c in VALID_CHARS for c in name)


# -- detectors -------------------------------------------------------------------

EVENTS = []
_ACTIVE = [False]
_HOOKED = [False]


def _from_library():
    f = sys._getframe(2)
    while f is not None:
        fn = f.f_code.co_filename
        if fn.startswith(REPO + os.sep + "jsonrpclib"):
            return True
        f = f.f_back
    return False


def _audit(event, args):
    if _ACTIVE[0] and event == "import":
        if _from_library():
            EVENTS.append(("audit-import", args[0]))


_real_import = builtins.__import__
_real_import_module = importlib.import_module


def _wrapped_import(name, globals=None, locals=None, fromlist=(), level=0):
    if _ACTIVE[0] and _from_library():
        EVENTS.append(("__import__", name))
    return _real_import(name, globals, locals, fromlist, level)


def _wrapped_import_module(name, package=None):
    if _ACTIVE[0] and _from_library():
        EVENTS.append(("import_module", name))
    return _real_import_module(name, package)


def install_detectors():
    if not _HOOKED[0]:
        sys.addaudithook(_audit)
        _HOOKED[0] = True
        if CANARY_DIR not in sys.path:
            sys.path.append(CANARY_DIR)
    builtins.__import__ = _wrapped_import
    importlib.import_module = _wrapped_import_module


def remove_detectors():
    builtins.__import__ = _real_import
    importlib.import_module = _real_import_module


class recording(object):
    def __enter__(self):
        sys.modules.pop("mc_canary", None)
        builtins.__dict__["_mc_canary_flags"] = []
        del EVENTS[:]
        install_detectors()
        _ACTIVE[0] = True
        return self

    def __exit__(self, *a):
        _ACTIVE[0] = False
        remove_detectors()
        self.events = list(EVENTS) + [("canary", f) for f in builtins.__dict__.get("_mc_canary_flags", [])]


def escaped(text):
    """The same JSON text with the marker key spelled through an escape sequence (an equal string for every JSON parser)."""
    return text.replace('"__jsonclass__"', '"__json\\u0063lass__"')


def nest(x, depth, dicts=False):
    for i in range(depth):
        x = {"k": x} if (dicts or i % 2) else [x]
    return x


CFG_ON = Config(use_jsonclass=True)
CFG_OFF = Config(use_jsonclass=False)

# -- names ---------------------------------------------------------------------------


ALPHA4 = ["a", "0", "_", ".", " ", "-", "é", "٠", "\n", "ａ"]


def names(tier="quick"):
    seen = set()
    for k in range(0, 4):
        for combo in itertools.product(ALPHA, repeat=k):
            n = "".join(combo)
            if n not in seen:
                seen.add(n)
                yield n
    if tier == "thorough":
        for combo in itertools.product(ALPHA[:13], repeat=4):
            n = "".join(combo)
            if n not in seen:
                seen.add(n)
                yield n
    base = "mc_canary.Boom"
    for c in INVALID_INSERT:
        for pos in range(len(base) + 1):
            n = base[:pos] + c + base[pos:]
            if n not in seen:
                seen.add(n)
                yield n
    for n in ("mc_canary.Boom", "os.system", "decimal.Decimal", "mc.ref.beans.Plain", "é", "ｏｓ.path", "os．path", "os.páth"):
        if n not in seen:
            seen.add(n)
            yield n


def name_cases(tier):
    for n in names(tier):
        for args in ([], {}):
            for side in ("jsonclass.load", "jsonrpc.loads", "server"):
                if side == "server" and tier == "quick" and len(n) == 3 and n[0] in VALID_CHARS and n[1] in VALID_CHARS and valid_name(n):
                    continue
                yield (n, args, side)
            if not valid_name(n) and n:
                # the invalid name is itself a key of the configuration's local class table: it is still rejected, nothing is built
                yield (n, args, "jsonclass.load/registered")
                yield (n, args, "server/registered")
            if len(n) != 3 or not valid_name(n):
                # the descriptor 40 levels deep, and the marker key spelled with an escape sequence
                yield (n, args, "jsonclass.load/deep")
                yield (n, args, "jsonrpc.loads/escaped")
                yield (n, args, "server/escaped")
                yield (n, args, "server/deep")


def check_name(case):
    name, args, side = case
    out = Out()
    ok_name = valid_name(name)
    out.cls = "%s/%s" % (side, "valid-name" if ok_name else "invalid-name")
    desc = {"__jsonclass__": [name, args]}
    side, _, variant = side.partition("/")
    if variant == "deep":
        desc = nest(desc, 40)
    esc = escaped if variant == "escaped" else (lambda t: t)
    if not ok_name:
        # non-initial state: the same translator has just resolved the name that remains when the invalid characters are dropped
        cleaned = "".join(c for c in name if c in VALID_CHARS)
        if cleaned and cleaned != name and "." in cleaned.strip("."):
            try:
                jsonclass.load({"__jsonclass__": [cleaned, args]})
            except Exception:
                pass
    registered = variant == "registered"
    if registered:
        built = []

        class Registered(object):
            def __init__(self, *a, **k):
                built.append((a, k))
    if side == "jsonclass.load":
        with recording() as rec:
            try:
                if registered:
                    jsonclass.load(desc, {name: Registered})
                else:
                    jsonclass.load(desc)
                res = "ret"
            except jsonclass.TranslationError:
                res = "TranslationError"
            except Exception as ex:
                res = type(ex).__name__
    elif side == "jsonrpc.loads":
        text = esc(json.dumps({"jsonrpc": "2.0", "id": 1, "result": [desc]}))
        with recording() as rec:
            try:
                J.loads(text, CFG_ON)
                res = "ret"
            except jsonclass.TranslationError:
                res = "TranslationError"
            except Exception as ex:
                res = type(ex).__name__
    else:
        w = _world(True)
        if registered:
            w = ref.World(version=2.0, use_jsonclass=True)
            w.config.classes[name] = Registered
        body = esc(json.dumps({"jsonrpc": "2.0", "id": 1, "method": "f", "params": [desc]}))
        with recording() as rec:
            try:
                reply = w.run(body)
                res = "ret"
            except Exception as ex:
                reply = None
                res = type(ex).__name__
        if not ok_name:
            try:
                r = json.loads(reply)
            except Exception:
                r = None
            if not (isinstance(r, dict) and isinstance(r.get("error"), dict) and r["error"].get("code") == -32700):
                out.bad("C08/server/invalid-class-name-not-answered-32700", "class name %r: reply %r" % (name, reply))
            if w.log:
                out.bad("C08/server/method-invoked-for-rejected-payload", "class name %r: invoked %r" % (name, w.log))
    if registered and built:
        out.bad("C08/%s/object-built-for-an-invalid-class-name" % side, "class name %r is a key of the local class table: an object was built (%r)" % (name, built))
    if not ok_name:
        if rec.events:
            out.bad("C08/%s/import-or-construction-before-name-validation" % side, "class name %r: events %r" % (name, rec.events))
        if side != "server":
            if res == "ret":
                out.bad("C08/%s/invalid-class-name-accepted" % side, "class name %r was accepted" % (name,))
            elif res != "TranslationError":
                out.bad("C08/%s/invalid-class-name-raises-%s-instead-of-TranslationError" % (side, res), "class name %r raised %s" % (name, res))
    return out


def codepoint_cases(tier):
    """Every Unicode code point (quick: the whole BMP and every 16th astral one) placed inside an otherwise valid, importable class name."""
    block = 256
    for start in range(0, 0x110000, block):
        if tier == "quick" and start >= 0x10000 and (start // block) % 16:
            continue
        yield (start, block)


def check_codepoints(case):
    start, n = case
    out = Out(cls="codepoints")
    for cp in range(start, start + n):
        c = chr(cp)
        if c in VALID_CHARS:
            continue
        for name in ("mc_canary.B" + c + "oom", c + "mc_canary.Boom"):
            with recording() as rec:
                try:
                    jsonclass.load({"__jsonclass__": [name, []]})
                    res = "ret"
                except jsonclass.TranslationError:
                    res = "TranslationError"
                except Exception as ex:
                    res = type(ex).__name__
            if rec.events:
                out.bad("C08/jsonclass.load/import-or-construction-before-name-validation", "class name %r (U+%04X): events %r" % (name, cp, rec.events))
            if res == "ret":
                out.bad("C08/jsonclass.load/invalid-class-name-accepted", "class name %r (U+%04X) was accepted" % (name, cp))
            elif res != "TranslationError":
                out.bad("C08/jsonclass.load/invalid-class-name-raises-%s-instead-of-TranslationError" % res, "class name %r (U+%04X) raised %s" % (name, cp, res))
    return out


def leg_codepoints(part, tier, shard, nshards):
    try:
        jsonclass.load({"__jsonclass__": ["x y", []]})
    except Exception:
        pass
    drive(part, "codepoints", codepoint_cases(tier), shard, nshards, check_codepoints)


_WORLDS = {}


def _world(on):
    if on not in _WORLDS:
        _WORLDS[on] = ref.World(version=2.0, use_jsonclass=on)
    return _WORLDS[on]


def leg_names(part, tier, shard, nshards):
    # warm-up: make sure lazily imported helpers are loaded before the detectors look
    try:
        jsonclass.load({"__jsonclass__": ["decimal.Decimal", ["1"]]})
        jsonclass.load({"__jsonclass__": ["x y", []]})
    except Exception:
        pass
    drive(part, "names", name_cases(tier), shard, nshards, check_name)


# -- translation off: inert -------------------------------------------------------------------

SHAPES = [
    ["mc_canary.Boom", []], ["mc_canary.Boom", {}], ["decimal.Decimal", ["1.5"]], ["os.getcwd", []], ["no_such_zz.C", []], ["bad name!", []],
    ["", []], [], ["mc_canary.Boom"], ["mc_canary.Boom", [], "x"], "mc_canary.Boom", 5, None, True, {}, {"a": 1}, [5, []], [None, []],
    [["mc_canary.Boom"], []], ["mc_canary.Boom", "args"], ["mc_canary.Boom", 5], ["mc_canary.Boom", None],
]


def placements(x):
    yield x
    yield [x]
    yield {"k": x}
    yield [0, {"k": [x]}]
    yield {"__jsonclass__": ["mc.ref.beans.Plain", []], "field": x}
    yield {"jsonrpc": "2.0", "method": "echo", "params": [x], "id": 1}
    yield {"jsonrpc": "2.0", "method": "echo", "params": {"x": x}, "id": 1}
    yield {"jsonrpc": "2.0", "method": "echo", "params": [1], "id": x}
    yield {"jsonrpc": "2.0", "id": 1, "result": x}
    yield {"jsonrpc": "2.0", "id": 1, "result": [x, {"k": x}]}
    yield {"jsonrpc": "2.0", "id": 1, "error": {"code": 5, "message": "m", "data": x}}
    yield [{"jsonrpc": "2.0", "id": 1, "result": x}, {"jsonrpc": "2.0", "id": 2, "result": 0}]
    yield {"id": 1, "result": x, "error": None}
    yield nest(x, 30)
    yield nest(x, 61, dicts=True)
    yield {"jsonrpc": "2.0", "id": 1, "result": nest(x, 26)}


def off_cases(tier):
    for si in range(len(SHAPES)):
        n = len(list(placements(0)))
        for pi in range(n):
            for side in ("loads", "load", "server", "server-batch", "client", "loads/escaped", "server/escaped", "client/escaped", "client-multicall"):
                yield (si, pi, side)


def check_off(case):
    si, pi, side = case
    x = {"__jsonclass__": SHAPES[si]}
    struct = list(placements(x))[pi]
    out = Out(cls="off/" + side)
    side, _, variant = side.partition("/")
    esc = escaped if variant == "escaped" else (lambda t: t)
    text = esc(json.dumps(struct))
    plain = json.loads(text)
    if side in ("loads", "load"):
        with recording() as rec:
            try:
                got = J.loads(text, CFG_OFF) if side == "loads" else J.load(json.loads(text), CFG_OFF)
            except Exception as ex:
                return out.bad("C08/off/%s-raises-%s" % (side, type(ex).__name__), "%s(%r) with translation off raised %r" % (side, text, ex))
        if not gen.same(got, plain):
            out.bad("C08/off/decoding-differs-from-plain-json", "%s(%r) = %r, json.loads gives %r" % (side, text, got, plain))
    elif side in ("server", "server-batch"):
        w = _world(False)
        req = {"jsonrpc": "2.0", "method": "echo", "params": [struct], "id": 9}
        body = esc(json.dumps([req, {"jsonrpc": "2.0", "method": "f", "params": [struct]}] if side == "server-batch" else req))
        with recording() as rec:
            try:
                reply = w.run(body)
            except Exception as ex:
                return out.bad("C08/off/server-raises-%s" % type(ex).__name__, "body %r raised %r" % (body, ex))
        try:
            r = json.loads(reply)
        except ValueError:
            r = None
        if isinstance(r, list):
            r = r[0] if r else None
        if not (isinstance(r, dict) and "result" in r and gen.same(r["result"], plain)):
            out.bad("C08/off/server-does-not-pass-payload-verbatim", "body %r -> reply %r" % (body, reply))
        first = w.log[0] if w.log else None
        if not (first and first[0] == "echo" and gen.same(first[1], [plain])):
            out.bad("C08/off/method-did-not-receive-payload-verbatim", "body %r -> invocation log %r" % (body, w.log))
    elif side == "client-multicall":
        # a MultiCall built on a proxy whose configuration has translation off (no configuration given to the MultiCall itself)
        from mc.loop import CannedTransport

        t = CannedTransport([json.dumps([{"jsonrpc": "2.0", "id": 1, "result": struct}, {"jsonrpc": "2.0", "id": 2, "result": [struct]}])])
        p = jsonrpclib.ServerProxy("http://h/", transport=t, config=CFG_OFF)
        with recording() as rec:
            try:
                mc = jsonrpclib.MultiCall(p)
                mc.m()
                mc.n(1)
                got = list(mc())
            except Exception as ex:
                return out.bad("C08/off/client-raises-%s" % type(ex).__name__, "batch result %r raised %r" % (struct, ex))
        if not gen.same(got, [plain, [plain]]):
            out.bad("C08/off/decoding-differs-from-plain-json", "MultiCall results %r, expected %r" % (got, [plain, [plain]]))
    else:
        # client: a response carrying the structure, translation off on the proxy
        from mc.loop import CannedTransport

        t = CannedTransport([esc(json.dumps({"jsonrpc": "2.0", "id": 1, "result": struct}))])
        p = jsonrpclib.ServerProxy("http://h/", transport=t, config=CFG_OFF)
        with recording() as rec:
            try:
                got = p.m()
            except Exception as ex:
                return out.bad("C08/off/client-raises-%s" % type(ex).__name__, "result %r raised %r" % (struct, ex))
        if not gen.same(got, plain):
            out.bad("C08/off/decoding-differs-from-plain-json", "client result %r, expected %r" % (got, plain))
    if rec.events:
        out.bad("C08/off/import-or-construction-with-translation-disabled", "%s on %r: events %r" % (side, text, rec.events))
    return out


def leg_off(part, tier, shard, nshards):
    drive(part, "translation-off", off_cases(tier), shard, nshards, check_off)


# -- translation on: malformed descriptors are rejected, server answers -32700 -----------------------

REJECT = [s for s in SHAPES if s not in (["mc_canary.Boom", []], ["mc_canary.Boom", {}], ["decimal.Decimal", ["1.5"]], ["os.getcwd", []],
                                         ["mc_canary.Boom", [], "x"])]


def on_cases(tier):
    for si in range(len(REJECT)):
        for pi in list(range(8)) + [13, 14, 15]:
            yield (si, pi, "")
            yield (si, pi, "escaped")


def check_on(case):
    si, pi, variant = case
    esc = escaped if variant == "escaped" else (lambda t: t)
    shape = REJECT[si]
    x = {"__jsonclass__": shape}
    struct = list(placements(x))[pi]
    out = Out(cls="on/rejected")
    invalid_name = isinstance(shape, list) and len(shape) >= 1 and not valid_name(shape[0]) if isinstance(shape, list) and shape else False
    wellformed_desc = isinstance(shape, list) and len(shape) == 2 and isinstance(shape[0], str) and isinstance(shape[1], (list, dict))
    with recording() as rec:
        try:
            if variant == "escaped":
                J.loads(esc(json.dumps(struct)), CFG_ON)
            else:
                jsonclass.load(json.loads(json.dumps(struct)))
            res = "ret"
        except jsonclass.TranslationError:
            res = "TranslationError"
        except Exception as ex:
            res = type(ex).__name__
    if res == "ret":
        out.bad("C08/on/malformed-descriptor-accepted", "load(%r) returned" % (struct,))
    if wellformed_desc and invalid_name and res != "TranslationError":
        out.bad("C08/on/invalid-class-name-raises-%s-instead-of-TranslationError" % res, "load(%r) raised %s" % (struct, res))
    if invalid_name:
        # imports caused by the (valid) enclosing bean of placement 4 are legitimate
        bad_events = [e for e in rec.events if e[0] == "canary" or e[1] not in ("mc.ref.beans", "mc.ref", "mc", "_io")]
        if bad_events:
            out.bad("C08/on/import-or-construction-before-name-validation", "load(%r): events %r" % (struct, bad_events))
    w = _world(True)
    body = esc(json.dumps({"jsonrpc": "2.0", "method": "f", "params": [struct], "id": 3}))
    try:
        reply = w.run(body)
        r = json.loads(reply)
    except Exception as ex:
        return out.bad("C08/on/server-raises", "body %r raised %r" % (body, ex))
    if not (isinstance(r, dict) and isinstance(r.get("error"), dict) and r["error"].get("code") == -32700):
        out.bad("C08/server/rejected-payload-not-answered-32700", "body %r -> %r" % (body, reply))
    if w.log:
        out.bad("C08/server/method-invoked-for-rejected-payload", "body %r invoked %r" % (body, w.log))
    return out


def leg_on(part, tier, shard, nshards):
    drive(part, "translation-on", on_cases(tier), shard, nshards, check_on)


LEGS = {"names": leg_names, "translation-off": leg_off, "translation-on": leg_on, "codepoints": leg_codepoints}

META = {
    "technique": "bounded-exhaustive enumeration of class-name strings and descriptor payloads with import/construction detectors "
    "(wrapped __import__ and import_module, audit hook, canary module) and a one-line reference predicate for valid names",
    "rule": "names: every string of length 0-3 over a 16-character alphabet (ASCII letters/digit/underscore/dot, space, punctuation, newline, NUL, "
    "non-ASCII letters and digits, astral) = 4369 names, plus 29 invalid characters inserted at each of the 15 positions of 'mc_canary.Boom', x list/dict "
    "arguments x {jsonclass.load, jsonrpc.loads, server, the descriptor nested 40 levels deep, the marker key spelled with a \\u escape}; codepoints: every "
    "Unicode code point (quick: whole BMP + every 16th astral block) inserted into and prefixed to an importable canary class name; translation-off: 22 "
    "descriptor shapes x 16 placements (incl. 26/30/61 levels deep) x {loads, load, server, server batch, client proxy, and the escaped key spelling}; "
    "translation-on: 17 rejected shapes x 11 placements x {plain, escaped key}; non-trivial = every case (each has a defined expectation)",
    "bounds": {"quick": {"name_length": 3}, "thorough": {"name_length": "3 over 16 characters, 4 over 13 characters"}},
    "assumptions": [
        "an import event is attributed to the library when a jsonrpclib frame is on the stack of the importing call",
        "names that satisfy the reference predicate may be imported (only missing modules and side-effect-free ones occur in the alphabet)",
    ],
}


def replay(case):
    c = eval(case["case"], {"__builtins__": {}}, {})
    if case["leg"] == "names":
        return check_name(c).viols
    if case["leg"] == "codepoints":
        return check_codepoints(c).viols
    if case["leg"] == "translation-off":
        return check_off(c).viols
    return check_on(c).viols
