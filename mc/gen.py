"""Deterministic, duplicate-free, simplest-first generators of finite spaces."""
import itertools

# Leaves: every one sits on one side of a truthiness test, a type test or a
# representation boundary that is visible in the audited code.
LEAVES = [
    None, True, False, 0, 1, -1, 2 ** 53, -(2 ** 53), 0.0, -0.0, 1.5, 1e-7,
    1.7976931348623157e308, "", "a", "0", "é", "€", "\U0001F600", "\"\\\n",
    "__jsonclass__", [], {},
]
SMALL_LEAVES = [None, False, 0, 1, 0.0, 1.5, "", "a", "é", [], {}]
DICT_KEYS = ["", "a", "é", "id", "result", "error", "jsonrpc"]


def tkey(v):
    """Type-exact structural key (True != 1, 0 != 0.0, -0.0 != 0.0)."""
    if isinstance(v, bool) or v is None:
        return (type(v).__name__, v)
    if isinstance(v, float):
        return ("float", repr(v))
    if isinstance(v, int):
        return ("int", v)
    if isinstance(v, str):
        return ("str", v)
    if isinstance(v, bytes):
        return ("bytes", v)
    if isinstance(v, (list, tuple)):
        return (type(v).__name__, tuple(tkey(i) for i in v))
    if isinstance(v, (set, frozenset)):
        return (type(v).__name__, tuple(sorted((tkey(i) for i in v), key=repr)))
    if isinstance(v, dict):
        return ("dict", tuple(sorted(((tkey(k), tkey(x)) for k, x in v.items()), key=repr)))
    return ("obj", type(v).__name__, id(v))


def normalise(v):
    """JSON normalisation of the property texts: tuples become lists."""
    if isinstance(v, (list, tuple)):
        return [normalise(i) for i in v]
    if isinstance(v, dict):
        return {k: normalise(x) for k, x in v.items()}
    return v


def same(a, b):
    return tkey(a) == tkey(b)


def json_values(depth, width, leaves=None, keys=None):
    """All closed JSON terms up to `depth` constructor levels and `width`
    members per container, leaves first (simplest first).  The last level is
    produced lazily, so a consumer may stop early."""
    leaves = LEAVES if leaves is None else leaves
    keys = DICT_KEYS if keys is None else keys
    seen = {repr(tkey(v)) for v in leaves}
    for v in leaves:
        yield v
    prev = list(leaves)
    for level in range(depth):
        last = level == depth - 1
        new = []
        for w in range(1, width + 1):
            for combo in itertools.product(prev, repeat=w):
                v = list(combo)
                k = repr(tkey(v))
                if k not in seen:
                    seen.add(k)
                    yield v
                    if not last:
                        new.append(v)
            for ks in itertools.combinations(keys[: width + 2], w):
                for combo in itertools.product(prev, repeat=w):
                    v = dict(zip(ks, combo))
                    k = repr(tkey(v))
                    if k not in seen:
                        seen.add(k)
                        yield v
                        if not last:
                            new.append(v)
        prev = prev + new


def sharded(iterable, shard, nshards):
    for i, x in enumerate(iterable):
        if i % nshards == shard:
            yield i, x


def compositions(n):
    """All ways to cut range(n) into consecutive non-empty pieces, as lists of piece lengths."""
    if n == 0:
        yield []
        return
    for mask in range(1 << (n - 1)):
        out = []
        run = 1
        for i in range(n - 1):
            if mask >> i & 1:
                out.append(run)
                run = 1
            else:
                run += 1
        out.append(run)
        yield out


def cut(data, sizes):
    out = []
    pos = 0
    for s in sizes:
        out.append(data[pos:pos + s])
        pos += s
    return out


def subsets(items):
    items = list(items)
    for r in range(len(items) + 1):
        for c in itertools.combinations(items, r):
            yield list(c)


# -- values of non-exact Python types (subclasses of the JSON container / scalar types) -------------------
# json.dumps accepts all of them; their reprs evaluate back to equal values (needed by replay files).

import collections

OrderedDict = collections.OrderedDict
Counter = collections.Counter
Point = collections.namedtuple("Point", "x y")


class MyDict(dict):
    def __repr__(self):
        return "MyDict(%s)" % dict.__repr__(self)


class MyList(list):
    def __repr__(self):
        return "MyList(%s)" % list.__repr__(self)


class MyStr(str):
    def __repr__(self):
        return "MyStr(%s)" % str.__repr__(self)


class MyInt(int):
    def __repr__(self):
        return "MyInt(%s)" % int.__repr__(self)


SUBTYPE_ENV = {"OrderedDict": OrderedDict, "Counter": Counter, "Point": Point, "MyDict": MyDict, "MyList": MyList, "MyStr": MyStr, "MyInt": MyInt}
SUBTYPE_VALUES = [OrderedDict([("b", 1), ("a", [2])]), OrderedDict(), Counter({"a": 2}), MyDict({"k": 1}), MyList([1, "a"]), Point(1, [2]),
                  MyStr("s"), MyStr(""), MyInt(7), MyInt(0)]
