"""Drives the real HTTP request handler (do_POST) over in-memory streams."""
import io

from jsonrpclib.SimpleJSONRPCServer import SimpleJSONRPCRequestHandler


class _Sink(io.BytesIO):
    def close(self):
        pass


class ChunkedRaw(io.RawIOBase):
    """Raw stream that returns the given pieces one per read call (short reads)."""

    def __init__(self, pieces):
        self.pieces = [bytes(p) for p in pieces if len(p)]
        self.reads = 0

    def readable(self):
        return True

    def readinto(self, b):
        if not self.pieces:
            return 0
        self.reads += 1
        p = self.pieces[0]
        n = min(len(b), len(p))
        b[:n] = p[:n]
        if n == len(p):
            self.pieces.pop(0)
        else:
            self.pieces[0] = p[n:]
        return n


class FakeConn(object):
    def __init__(self, rfile):
        self.r = rfile
        self.w = _Sink()

    def makefile(self, mode, bufsize=None):
        return self.r if "r" in mode else self.w

    def setsockopt(self, *a):
        pass

    def sendall(self, b):
        self.w.write(b)

    def close(self):
        pass


class GuardedBytesIO(io.BytesIO):
    """BytesIO that notices a reader spinning on the end of the stream (a handler loop without an EOF exit)."""

    eof_reads = 0
    LIMIT = 2000

    def read(self, n=-1):
        d = io.BytesIO.read(self, n)
        if not d and n != 0:
            self.eof_reads += 1
            if self.eof_reads > self.LIMIT:
                raise OSError("verification harness: %d reads after the end of the request stream" % self.eof_reads)
        return d


def request_bytes(body, path="/", extra_headers=(), declared=None):
    head = ["POST %s HTTP/1.1" % path, "Host: h", "Content-Type: application/json",
            "Content-Length: %d" % (len(body) if declared is None else declared),
            "Connection: close"] + list(extra_headers)
    return ("\r\n".join(head) + "\r\n\r\n").encode("latin-1") + body


def post(server, body, path="/", body_pieces=None, unbuffered=False, handler_class=SimpleJSONRPCRequestHandler, declared=None):
    """Feeds one POST to the real handler; returns (status, [(name, value)...], body_bytes).

    body_pieces: optional list of byte strings: the body is delivered to the
    handler's rfile in exactly these reads (header block is delivered first).
    """
    head = request_bytes(body, path, declared=declared)[: -len(body)] if body else request_bytes(body, path, declared=declared)
    if body_pieces is None:
        rfile = GuardedBytesIO(head + body)
        post.last_rfile = rfile
    else:
        raw = ChunkedRaw([head] + list(body_pieces))
        # BufferedReader.read(n) loops until n bytes or EOF, like socket.makefile('rb'); the raw
        # variant (unbuffered) hands short reads straight to the handler
        rfile = raw if unbuffered else io.BufferedReader(raw, buffer_size=1)
        if unbuffered:
            # header parsing needs readline: use a buffered reader for the head only
            rfile = _HeadThenRaw(head, list(body_pieces))
    conn = FakeConn(rfile)
    if not hasattr(server, "logRequests"):
        server.logRequests = False
    handler_class(conn, ("peer", 0), server)
    data = conn.w.getvalue()
    head, _, rest = data.partition(b"\r\n\r\n")
    lines = head.decode("latin-1").split("\r\n")
    status = int(lines[0].split()[1]) if lines and len(lines[0].split()) > 1 else None
    headers = []
    for l in lines[1:]:
        k, _, v = l.partition(":")
        headers.append((k.strip(), v.strip()))
    return status, headers, rest


class _HeadThenRaw(object):
    """rfile whose readline() serves the header block and whose read(n) returns one body piece per call (short reads)."""

    def __init__(self, head, pieces):
        self.head = io.BytesIO(head)
        self.pieces = [bytes(p) for p in pieces if len(p)]
        self.closed = False

    def readline(self, limit=-1):
        return self.head.readline(limit)

    def read(self, n=-1):
        if not self.pieces:
            return b""
        p = self.pieces[0]
        if n is None or n < 0 or n >= len(p):
            self.pieces.pop(0)
            return p
        self.pieces[0] = p[n:]
        return p[:n]

    def close(self):
        self.closed = True

    def flush(self):
        pass
