"""E1 exploration: iterative-context-bounded depth-first enumeration of schedules.

A *job* is (module, factory, params, bounds): `factory(*params)` returns a
zero-argument callable producing a fresh harness for one execution.  A harness
has: main() (body of managed thread 0), final(sched) -> (obs, viols),
optional step(sched), abstract(), audited (file set), opcode_funcs.

Executions are enumerated exactly as in CHESS: run a choice prefix, continue
with choice 0, then branch on every later choice point whose alternative stays
within K preemptions and T timer deviations.
"""
import importlib
import json
import multiprocessing
import time
import traceback

from mc import sched
from mc.core import NPROC, Part, h64


_WARM = set()


def harness_factory(spec):
    modname, fname, params = spec
    mod = importlib.import_module(modname)
    return getattr(mod, fname)(*params)


def run_harness(make, choices=(), expect=None, T=0, count_states=True, record_trace=False, lenient=False):
    h = make()
    ex = sched.run_one(
        h.main, choices, expect=expect, timer_budget=T, audited=getattr(h, "audited", ()),
        step=getattr(h, "step", None), final=h.final, abstract=getattr(h, "abstract", None),
        count_states=count_states, record_trace=record_trace, opcode_funcs=getattr(h, "opcode_funcs", ()), lenient=lenient)
    return ex


def costs(points):
    """-> list of (preemptions, timer fires) accumulated *before* each point."""
    out = []
    pre = tim = 0
    for p in points:
        out.append((pre, tim))
        if p.choice == p.fire_index and p.fire_index >= 0:
            tim += 1
        elif p.cur_enabled and p.choice != 0:
            pre += 1
    return out, (pre, tim)


def children(points, plen, K, T, F=None):
    """F (optional): bound on 'free' deviations - choosing another than the first enabled thread where the running thread
    cannot continue.  Unbounded by default; F=0 leaves only the default hand-over order at blocking points."""
    cs, _ = costs(points)
    kids = []
    free = 0
    frees = []
    for p in points:
        frees.append(free)
        if not (p.choice == p.fire_index and p.fire_index >= 0) and not p.cur_enabled and p.choice != 0:
            free += 1
    for i in range(plen, len(points)):
        p = points[i]
        pre, tim = cs[i]
        for alt in range(1, p.nopts):
            if alt == p.fire_index:
                if tim + 1 > T:
                    continue
            elif p.cur_enabled:
                if pre + 1 > K:
                    continue
            elif F is not None and frees[i] + 1 > F:
                continue
            choices = [q.choice for q in points[:i]] + [alt]
            expect = [q.nopts for q in points[:i + 1]]
            kids.append((choices, expect))
    return kids


def explore_chunk(args):
    """Worker: explores the subtree below `prefix` depth-first, at most `budget` executions.

    Returns (Part, leftover prefixes)."""
    spec, bounds, prefix, budget, label = args
    part = Part()
    part.leg = label
    leftover = []
    try:
        make = harness_factory(spec)
        K, T = bounds["K"], bounds.get("T", 0)
        stack = [prefix]
        n = 0
        livelocks = 0
        obs_seen = set()
        if spec not in _WARM:
            _WARM.add(spec)
            if getattr(make(), "opcode_funcs", ()):
                # opcode-level events only settle once this process's interpreter has instrumented the code objects
                run_harness(make, [], None, T, count_states=False)
                run_harness(make, [], None, T, count_states=False)
        while stack:
            if n >= budget:
                leftover = stack
                break
            choices, expect = stack.pop()
            ex = run_harness(make, choices, expect, T)
            n += 1
            if not choices and bounds.get("determinism", True):
                ex2 = run_harness(make, [p.choice for p in ex.points], [p.nopts for p in ex.points], T, record_trace=False)
                if repr(ex2.obs) != repr(ex.obs) or len(ex2.points) != len(ex.points):
                    part.error("replay of the default schedule of %s diverged: %r vs %r" % (label, ex.obs, ex2.obs))
                part.count("schedules_replayed_twice")
            _, (pre, tim) = costs(ex.points)
            part.count("transitions", ex.nsteps)
            part.count("traces_validated_against_impl")
            part.count("choice_points", len(ex.points))
            if any(p.nopts > 1 and p.cur_enabled for p in ex.points):
                part.count("executions_with_concurrently_enabled_threads")
            mp = "max_points:" + label
            part.notes[mp] = max(part.notes.get(mp, 0), len(ex.points))
            if ex.fingerprints:
                part.sets.setdefault("states", set()).update(ex.fingerprints)
            okey = repr(ex.obs)
            sample = None
            if (okey not in obs_seen and len(obs_seen) < 2) or (n < 40 and (pre or tim) and n % 13 == 0):
                sample = {"harness": label, "schedule": [p.choice for p in ex.points], "status": ex.status, "observation": ex.obs,
                          "preemptions": pre, "timer_deviations": tim}
            obs_seen.add(okey)
            part.case(nontrivial_key=(label, tuple(p.choice for p in ex.points)) if (pre or tim or len(ex.points) > 0) else None,
                      cls="%s|%s" % (ex.status, okey[:160]), sample=sample, leg=label)
            for sig, detail in ex.viols:
                sch = [p.choice for p in ex.points]
                part.violation(
                    sig,
                    {"spec": list(spec), "bounds": bounds, "schedule": sch, "expect": [p.nopts for p in ex.points],
                     "preemptions": pre, "timer_deviations": tim},
                    "%s [harness %s, %d preemption(s), %d timer deviation(s), schedule %s]" % (detail, label, pre, tim, sch),
                    rank=(pre + tim) * 100000 + len(sch))
            if ex.status == "livelock" and ex.viols:
                # executions that never terminate run up to the forced-timer limit and are ~100 times longer than ordinary ones:
                # once a harness has produced 12 of them in a chunk the verdict is known and its subtree is dropped (reported)
                livelocks += 1
                if livelocks >= 12:
                    part.notes["cut:" + label] = "subtree dropped after %d non-terminating executions (verdict already VIOLATED)" % livelocks
                    part.counters["subtrees_cut_after_livelocks"] = part.counters.get("subtrees_cut_after_livelocks", 0) + 1
                    stack = []
                    break
            kids = children(ex.points, len(choices), K, T, bounds.get("F"))
            # depth-first, lexicographically smallest alternative first
            stack.extend(reversed(kids))
    except sched.HarnessError as ex:
        part.error("harness error in %s: %s" % (label, ex))
    except BaseException:
        part.error("explorer crashed in %s:\n%s" % (label, traceback.format_exc()))
    return part, leftover, args


def explore_jobs(jobs, nproc=None, chunk=400, cap=None, progress=None):
    """jobs: list of (spec, bounds, label).  Returns the merged Part.

    cap: optional limit on executions per job (reported as caps_hit, never silently)."""
    nproc = nproc or NPROC
    total = Part()
    counts = {}
    queue = [(spec, bounds, ([], []), chunk, label) for spec, bounds, label in jobs]

    def account(part, leftover, args):
        spec, bounds, _, _, label = args
        total.merge(part)
        counts[label] = counts.get(label, 0) + part.evals.get(label, 0)
        new = []
        if leftover:
            if cap is not None and counts[label] >= cap:
                total.count("caps_hit")
                total.notes["cap:" + label] = "stopped after %d executions with %d prefixes unexplored" % (counts[label], len(leftover))
            else:
                for pre in leftover:
                    new.append((spec, bounds, pre, chunk, label))
        return new

    if nproc == 1:
        while queue:
            a = queue.pop()
            part, leftover, args = explore_chunk(a)
            queue.extend(account(part, leftover, args))
        return total
    ctx = multiprocessing.get_context("fork")
    with ctx.Pool(nproc) as pool:
        pending = []
        while queue or pending:
            while queue and len(pending) < nproc * 3:
                pending.append(pool.apply_async(explore_chunk, (queue.pop(),)))
            time.sleep(0.002)
            still = []
            for r in pending:
                if r.ready():
                    part, leftover, args = r.get()
                    queue.extend(account(part, leftover, args))
                else:
                    still.append(r)
            pending = still
    return total


def replay_schedule(case):
    """Re-runs one recorded schedule twice; returns the violations of the (identical) runs."""
    spec = tuple(case["spec"][:2]) + (tuple(_untuple(case["spec"][2])),)
    make = harness_factory(spec)
    T = case["bounds"].get("T", 0)
    try:
        ex1 = run_harness(make, case["schedule"], case.get("expect"), T, record_trace=True)
        ex2 = run_harness(make, case["schedule"], case.get("expect"), T, record_trace=True)
    except sched.HarnessError as ex:
        # the tree under test has other scheduling points than the one the schedule was recorded on
        print("note: the recorded schedule does not fit this tree exactly (%s); replaying it leniently" % (str(ex)[:120],))
        ex1 = run_harness(make, case["schedule"], None, T, record_trace=True, lenient=True)
        ex2 = run_harness(make, case["schedule"], None, T, record_trace=True, lenient=True)
    if ex1.trace_log != ex2.trace_log or repr(ex1.obs) != repr(ex2.obs):
        raise sched.HarnessError("schedule does not replay deterministically")
    print("replayed schedule: status=%s steps=%d observation=%r" % (ex1.status, ex1.nsteps, ex1.obs))
    return ex1.viols


def _untuple(x):
    if isinstance(x, list):
        return tuple(_untuple(i) for i in x)
    return x


def explore_adaptive(harnesses, levels, budget, nproc=None, chunk=400, hard_cap=None, global_budget=None):
    """Iterative bounding per harness: explores each harness at levels[0], then at the next level as long as
    the next level is predicted (from the growth between the last two levels) to need at most `budget` executions.

    Work is ordered by level (all harnesses at level n before any at level n+1); once `global_budget` executions
    have been run in total no further level is started, and once twice that many have been run the levels still in progress
    are abandoned as well (reported as such, never as completed).  harnesses: list of (spec, label[, maxlevel]); levels:
    list of {"K":..,"T":..}.  The deepest level completed for every harness is recorded in
    notes['completed_bounds'] (label -> "K=..,T=.. (n executions)")."""
    import heapq

    nproc = nproc or NPROC
    total = Part()
    done_bounds = {}
    outstanding = {}  # (label, level) -> number of chunks in flight or queued
    counts = {}
    queue = []
    seq = [0]
    ran = [0]
    maxlevel = {}
    partial = {}

    extra = {}
    cut = set()

    def push(spec, label, li, prefix=([], [])):
        outstanding[(label, li)] = outstanding.get((label, li), 0) + 1
        seq[0] += 1
        heapq.heappush(queue, (li, seq[0], (spec, dict(levels[li], level=li, **extra.get(label, {})), prefix, chunk, label)))

    for h in harnesses:
        spec, label = h[0], h[1]
        if len(h) > 2:
            maxlevel[label] = h[2]
        if len(h) > 3:
            extra[label] = dict(h[3])  # further bounds of this harness, e.g. {"F": 0}
        push(spec, label, 0)

    def account(part, leftover, args):
        spec, bounds, _, _, label = args
        li = bounds["level"]
        key = (label, li)
        n = part.evals.get(label, 0)
        counts[key] = counts.get(key, 0) + n
        ran[0] += n
        total.merge(part)
        outstanding[key] -= 1
        cap = hard_cap if hard_cap is not None else 4 * budget
        if ("cut:" + label) in part.notes:
            cut.add(label)
        if label in cut:
            leftover = []
        if leftover or key in partial:
            over = global_budget is not None and ran[0] >= 2 * global_budget
            if counts[key] >= cap or (over and li > 0):
                # the level turned out larger than predicted: it is abandoned and NOT reported as completed
                partial[key] = counts[key]
            elif leftover:
                for pre in leftover:
                    push(spec, label, li, pre)
        if outstanding[key] == 0 and key in partial:
            total.notes.setdefault("levels_abandoned_after_cap", {})[label] = "K=%d,T=%d abandoned after %d executions" % (
                levels[li]["K"], levels[li].get("T", 0), counts[key])
            return
        if outstanding[key] == 0:
            done_bounds[label] = "K=%d,T=%d%s (%d executions)" % (levels[li]["K"], levels[li].get("T", 0),
                                                                   "".join(",%s=%s" % kv for kv in sorted(extra.get(label, {}).items())), counts[key])
            if li + 1 < len(levels) and not part.errors:
                # predicted size of the next level: this level times the growth seen between the last two levels
                prev = counts.get((label, li - 1), 0)
                growth = max(3.0, float(counts[key]) / prev) if prev else 8.0
                predicted = counts[key] * growth
                if predicted <= budget and li + 1 <= maxlevel.get(label, len(levels)) and (global_budget is None or ran[0] < global_budget) and label not in cut:
                    push(spec, label, li + 1)

    def next_job():
        """Next queued chunk whose (harness, level) has not been abandoned; chunks of abandoned levels are dropped unrun."""
        while queue:
            args = heapq.heappop(queue)[2]
            key = (args[4], args[1]["level"])
            if key in partial or args[4] in cut:
                account(Part(), [], args)
                continue
            return args
        return None

    if nproc == 1:
        while True:
            args = next_job()
            if args is None:
                break
            part, leftover, args = explore_chunk(args)
            account(part, leftover, args)
    else:
        ctx = multiprocessing.get_context("fork")
        with ctx.Pool(nproc) as pool:
            pending = []
            while queue or pending:
                while queue and len(pending) < nproc * 3:
                    job = next_job()
                    if job is None:
                        break
                    pending.append(pool.apply_async(explore_chunk, (job,)))
                time.sleep(0.002)
                still = []
                for r in pending:
                    if r.ready():
                        part, leftover, args = r.get()
                        account(part, leftover, args)
                    else:
                        still.append(r)
                pending = still
    total.notes["completed_bounds"] = done_bounds
    hist = {}
    for v in done_bounds.values():
        k = v.split(" ")[0]
        hist[k] = hist.get(k, 0) + 1
    total.notes["harnesses_by_deepest_completed_bound"] = hist
    if global_budget is not None:
        total.notes["global_execution_budget"] = global_budget
    return total
