"""Generated class definitions (as source text, compiled and executed) for C07 / C20.

A spec is (storage, levels, ser, ign):
  storage in {'dict', 'slots', 'slots-on-dict', 'dict-on-slots', 'mix:<S|P per level>'}, optionally followed by '@' and a prefix for
          the class names ('slots@_' names its classes _L0, _L1, ...: name mangling strips leading underscores)
  levels  tuple of field-kind tuples, one per class of the inheritance chain (base first),
          kinds 'a' (public), 'b' (protected, '_b'), 'c' (name-mangled, '__c')
  ser     in {'none', 'list', 'dict', 'custom-list'}   serialisation method variant
  ign     in {'none', 'attr', 'custom-attr'}            where the object's own ignore list lives
"""
import itertools
import sys
import types

KIND_NAME = {"a": "a%d", "b": "_b%d", "c": "__c%d"}
_CACHE = {}
_COUNTER = [0]


def field_options(maxfields=2):
    kinds = ["a", "b", "c"]
    out = [()]
    for k in range(1, maxfields + 1):
        out += list(itertools.combinations(kinds, k))
    return out


def specs(maxdepth, storages=("dict", "slots", "slots-on-dict", "dict-on-slots"), sers=("none",), igns=("none",), maxfields=2):
    opts = field_options(maxfields)
    for depth in range(0, maxdepth + 1):
        for levels in itertools.product(opts, repeat=depth + 1):
            if not any(levels):
                continue
            for storage in storages:
                if depth == 0 and storage.partition("@")[0] in ("slots-on-dict", "dict-on-slots"):
                    continue
                for ser in sers:
                    for ign in igns:
                        yield (storage, levels, ser, ign)


def source(spec, modname):
    storage, levels, ser, ign = spec
    storage, _, prefix = storage.partition("@")
    lines = ["import enum, decimal", ""]
    n = len(levels)
    fields = []  # (attribute name as written, real (mangled) name)
    for i, kinds in enumerate(levels):
        cname = prefix + "L%d" % i
        base = prefix + "L%d" % (i - 1) if i else "object"
        if storage.startswith("mix:"):
            # one letter per level, base first: S = the class declares __slots__, P = it does not
            slotted = storage[4:][i] == "S"
        else:
            slotted = {"dict": False, "slots": True, "slots-on-dict": i == n - 1, "dict-on-slots": i < n - 1 and n > 1}[storage]
        if storage == "dict-on-slots" and n == 1:
            slotted = False
        names = [KIND_NAME[k] % i for k in kinds]
        lines.append("class %s(%s):" % (cname, base))
        if slotted:
            lines.append("    __slots__ = (%s)" % "".join("%r, " % nm for nm in names))
        lines.append("    def __init__(self, *args, **kwargs):")
        if i:
            lines.append("        super().__init__()")
        for nm in names:
            lines.append("        self.%s = 'init-%s'" % (nm, nm))
        if ser != "none" and i == n - 1 and not slotted:
            lines.append("        self.args = list(args)")
            lines.append("        self.kwargs = dict(kwargs)")
            lines.append("        self.extra = None")
        lines.append("        pass")
        for nm in names:
            real = "_%s%s" % (cname.lstrip("_"), nm) if nm.startswith("__") else nm
            fields.append((nm, real))
        if i == n - 1:
            if ser in ("list", "dict", "custom-list") and not slotted:
                meth = "toJson" if ser == "custom-list" else "_serialize"
                lines.append("    def %s(self):" % meth)
                lines.append("        return (self.kwargs if self.kwargs else self.args), {'extra': self.extra}")
                if ser == "custom-list":
                    lines.append("    def _serialize(self):")
                    lines.append("        raise AssertionError('default-named serialisation method consulted')")
        lines.append("")
    return "\n".join(lines), fields


def build(spec, main_module=False):
    """-> (class, [(written name, real name)...], module name).  Classes are cached per process."""
    key = (spec, main_module)
    if key in _CACHE:
        return _CACHE[key]
    _COUNTER[0] += 1
    modname = "mc_gen_%d" % _COUNTER[0]
    src, fields = source(spec, modname)
    mod = types.ModuleType(modname)
    mod.__dict__["__name__"] = "__main__" if main_module else modname
    exec(compile(src, "<%s>" % modname, "exec"), mod.__dict__)
    mod.__dict__["__name__"] = modname
    if not main_module:
        sys.modules[modname] = mod
    cls = mod.__dict__[spec[0].partition("@")[2] + "L%d" % (len(spec[1]) - 1)]
    _CACHE[key] = (cls, fields, modname)
    return _CACHE[key]


ENUM_SRC = '''
import enum
class Color(enum.Enum):
    RED = 1
    GREEN = "g"
    BLUE = 2.5
    NONE = None
class Single(enum.Enum):
    ONLY = 0
'''


def enums():
    if "enums" not in _CACHE:
        mod = types.ModuleType("mc_gen_enums")
        exec(compile(ENUM_SRC, "<mc_gen_enums>", "exec"), mod.__dict__)
        sys.modules["mc_gen_enums"] = mod
        _CACHE["enums"] = mod
    return _CACHE["enums"]
