"""Command line of the model-checking harness.

    ./check C09 [--tier quick|thorough]     decide one property
    ./check C09 --replay replays/xxx.json   re-run one recorded case
    ./check selftest                        harness proof obligations
    ./check all [--tier ...]                every claimed property in turn
"""
import argparse
import importlib
import json
import logging
import os
import subprocess
import sys
import time

VERIF = os.path.dirname(os.path.dirname(os.path.abspath(__file__)))
REPO = os.path.abspath(os.environ.get("VERIF_REPO", "/repo"))
ALL = ["C%02d" % i for i in range(1, 21)]


def bind_repo():
    """Makes `import jsonrpclib` read the tree under test and nothing else."""
    sys.path.insert(0, REPO)
    os.environ.setdefault("JSONRPCLIB_VERIF", "1")
    import jsonrpclib

    got = os.path.dirname(os.path.dirname(os.path.abspath(jsonrpclib.__file__)))
    if got != REPO:
        print("HARNESS-ERROR jsonrpclib imported from %s, expected %s" % (got, REPO))
        sys.exit(2)
    setup_logging()
    # a warning attributed to library code (deprecated API use, ...) is raised as an error, as under `python -W error`:
    # the properties hold whatever the warning filter is, and this is the filter under which a warning changes behaviour
    import warnings
    warnings.filterwarnings("error", module=r"jsonrpclib(\..*)?$")


class _FormatAndDiscard(logging.Handler):
    """Formats every record (so that the arguments of every logging call are really rendered) and drops the text."""

    def emit(self, record):
        try:
            self.format(record)
        except Exception:
            pass  # a record that cannot be rendered is logging's business (Handler.handleError), not a property verdict


def setup_logging():
    """The properties do not depend on the logging configuration, so every run uses the configuration under which most
    library code executes: all loggers enabled at DEBUG, records rendered and discarded (VERIF_LOGGING=off restores silence)."""
    if os.environ.get("VERIF_LOGGING", "debug") == "off":
        logging.disable(logging.CRITICAL)
        return
    logging.raiseExceptions = False
    logging.lastResort = None
    root = logging.getLogger()
    for h in list(root.handlers):
        root.removeHandler(h)
    root.addHandler(_FormatAndDiscard())
    root.setLevel(logging.DEBUG)


def main(argv=None):
    ap = argparse.ArgumentParser()
    ap.add_argument("what")
    ap.add_argument("--tier", default=os.environ.get("VERIF_TIER", "quick"), choices=["quick", "thorough"])
    ap.add_argument("--replay", default=None)
    ap.add_argument("--legs", default=None, help="comma-separated subset of legs (debugging)")
    ap.add_argument("--jobs", type=int, default=None)
    args = ap.parse_args(argv)
    try:
        seed = int(os.environ.get("VERIF_SEED", "0") or 0)
    except ValueError:
        seed = 0

    what = args.what.upper() if args.what.lower() not in ("selftest", "all") else args.what.lower()
    if what == "all":
        rc = 0
        for p in ALL:
            if not os.path.exists(os.path.join(VERIF, "checks", p.lower() + ".py")):
                continue
            r = subprocess.call([os.path.join(VERIF, "check"), p, "--tier", args.tier])
            rc = max(rc, r)
        return rc

    bind_repo()
    from mc import core

    os.environ["VERIF_PROPERTY"] = what
    if args.jobs:
        core.NPROC = args.jobs

    if what == "selftest":
        from mc import selftest

        return selftest.main()

    modname = "checks." + what.lower()
    try:
        mod = importlib.import_module(modname)
    except ModuleNotFoundError as ex:
        if ex.name == modname:
            print("no check for %s" % what)
            return 2
        raise

    if args.replay:
        with open(args.replay) as f:
            doc = json.load(f)
        def replay_once():
            try:
                with core.case_watchdog(core.CASE_TIMEOUT):
                    return mod.replay(doc["case"])
            except core.CaseTimeout:
                return [("%s/case-does-not-terminate" % what, "the case did not finish within %d s" % core.CASE_TIMEOUT)]

        res = replay_once()
        res2 = replay_once()
        if [r[0] for r in res] != [r[0] for r in res2]:
            print("HARNESS-ERROR replay of %s is not deterministic: %r vs %r" % (args.replay, res, res2))
            return 2
        if not res:
            print("replay: property %s holds on this case (no violation reproduced)" % what)
            return 0
        for sig, detail in res:
            print("replay: signature=%s\n  %s" % (sig, detail))
        print("VIOLATION property=%s replay=%s" % (what, os.path.abspath(args.replay)))
        return 1

    t0 = time.time()
    legs = list(mod.LEGS)
    if args.legs:
        legs = [l for l in legs if l in args.legs.split(",")]
    tier_legs = [l for l in legs if mod.META.get("leg_tiers", {}).get(l, "quick") == "quick" or args.tier == "thorough"]
    # VERIF_SEED only permutes the order in which legs are started
    if seed:
        import random

        random.Random(seed).shuffle(tier_legs)
    if hasattr(mod, "prepare"):
        mod.prepare(args.tier)
    total = core.run_legs(modname, tier_legs, args.tier, serial_legs=mod.META.get("serial_legs", ()))
    return core.finish(what, args.tier, seed, total, mod.META, t0, tier_legs)


if __name__ == "__main__":
    sys.exit(main())
