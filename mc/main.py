"""Command line of the model-checking harness.

    ./check C09 [--tier quick|thorough]     decide one property
    ./check C09 --replay replays/xxx.json   re-run one recorded case
    ./check selftest                        harness proof obligations
    ./check all [--tier ...]                every claimed property in turn
"""
import argparse
import importlib
import json
import logging
import os
import subprocess
import sys
import time

VERIF = os.path.dirname(os.path.dirname(os.path.abspath(__file__)))
REPO = os.path.abspath(os.environ.get("VERIF_REPO", "/repo"))
ALL = ["C%02d" % i for i in range(1, 21)]


def bind_repo():
    """Makes `import jsonrpclib` read the tree under test and nothing else."""
    sys.path.insert(0, REPO)
    os.environ.setdefault("JSONRPCLIB_VERIF", "1")
    import jsonrpclib

    got = os.path.dirname(os.path.dirname(os.path.abspath(jsonrpclib.__file__)))
    if got != REPO:
        print("HARNESS-ERROR jsonrpclib imported from %s, expected %s" % (got, REPO))
        sys.exit(2)
    setup_logging()
    # a warning attributed to library code (deprecated API use, ...) is raised as an error, as under `python -W error`:
    # the properties hold whatever the warning filter is, and this is the filter under which a warning changes behaviour
    import warnings
    warnings.filterwarnings("error", module=r"jsonrpclib(\..*)?$")


class _FormatAndDiscard(logging.Handler):
    """Formats every record (so that the arguments of every logging call are really rendered) and drops the text."""

    def emit(self, record):
        try:
            self.format(record)
        except Exception:
            pass  # a record that cannot be rendered is logging's business (Handler.handleError), not a property verdict


def setup_logging():
    """The properties do not depend on the logging configuration, so every run uses the configuration under which most
    library code executes: all loggers enabled at DEBUG, records rendered and discarded (VERIF_LOGGING=off restores silence)."""
    if os.environ.get("VERIF_LOGGING", "debug") == "off":
        logging.disable(logging.CRITICAL)
        return
    logging.raiseExceptions = False
    logging.lastResort = None
    root = logging.getLogger()
    for h in list(root.handlers):
        root.removeHandler(h)
    root.addHandler(_FormatAndDiscard())
    root.setLevel(logging.DEBUG)


def main(argv=None):
    ap = argparse.ArgumentParser()
    ap.add_argument("what")
    ap.add_argument("--tier", default=os.environ.get("VERIF_TIER", "quick"), choices=["quick", "thorough"])
    ap.add_argument("--replay", default=None)
    ap.add_argument("--legs", default=None, help="comma-separated subset of legs (debugging)")
    ap.add_argument("--jobs", type=int, default=None)
    args = ap.parse_args(argv)
    try:
        seed = int(os.environ.get("VERIF_SEED", "0") or 0)
    except ValueError:
        seed = 0

    what = args.what.upper() if args.what.lower() not in ("selftest", "all") else args.what.lower()
    if what == "all":
        rc = 0
        for p in ALL:
            if not os.path.exists(os.path.join(VERIF, "checks", p.lower() + ".py")):
                continue
            r = subprocess.call([os.path.join(VERIF, "check"), p, "--tier", args.tier])
            rc = max(rc, r)
        return rc

    bind_repo()
    from mc import core

    os.environ["VERIF_PROPERTY"] = what
    if args.jobs:
        core.NPROC = args.jobs

    if what == "selftest":
        from mc import selftest

        return selftest.main()

    modname = "checks." + what.lower()
    try:
        mod = importlib.import_module(modname)
    except ModuleNotFoundError as ex:
        if ex.name == modname:
            print("no check for %s" % what)
            return 2
        raise

    if args.replay:
        with open(args.replay) as f:
            doc = json.load(f)
        flags = doc["case"].get("python_flags") if isinstance(doc.get("case"), dict) else None
        if flags == "-O" and not sys.flags.optimize:
            # the case was found with assert statements compiled away: replay it in such an interpreter
            return subprocess.call([sys.executable, "-O", "-X", "faulthandler", "-m", "mc.main", what, "--replay", args.replay], cwd=VERIF,
                                   env=dict(os.environ, PYTHONHASHSEED="4242"))

        def replay_once():
            try:
                with core.case_watchdog(core.CASE_TIMEOUT):
                    return mod.replay(doc["case"])
            except core.CaseTimeout:
                return [("%s/case-does-not-terminate" % what, "the case did not finish within %d s" % core.CASE_TIMEOUT)]

        res = replay_once()
        res2 = replay_once()
        if [r[0] for r in res] != [r[0] for r in res2]:
            print("HARNESS-ERROR replay of %s is not deterministic: %r vs %r" % (args.replay, res, res2))
            return 2
        if not res:
            print("replay: property %s holds on this case (no violation reproduced)" % what)
            return 0
        for sig, detail in res:
            print("replay: signature=%s\n  %s" % (sig, detail))
        print("VIOLATION property=%s replay=%s" % (what, os.path.abspath(args.replay)))
        return 1

    t0 = time.time()
    legs = list(mod.LEGS)
    if args.legs:
        legs = [l for l in legs if l in args.legs.split(",")]
    tier_legs = [l for l in legs if mod.META.get("leg_tiers", {}).get(l, "quick") == "quick" or args.tier == "thorough"]
    # VERIF_SEED only permutes the order in which legs are started
    if seed:
        import random

        random.Random(seed).shuffle(tier_legs)
    if hasattr(mod, "prepare"):
        mod.prepare(args.tier)
    total = core.run_legs(modname, tier_legs, args.tier, serial_legs=mod.META.get("serial_legs", ()))
    if not sys.flags.optimize and os.environ.get("VERIF_OPTIMIZED_PASS", "on") != "off":
        optimized_pass(what, args, mod, tier_legs, total)
    return core.finish(what, args.tier, seed, total, mod.META, t0, tier_legs)


def optimized_pass(what, args, mod, tier_legs, total):
    """Re-runs the enumeration legs (not the schedule explorations) in an interpreter started with -O, where `assert`
    statements are compiled away, and under a different string-hash seed: a property holds whatever the optimisation level
    and the hash randomisation.  Violations found there are reported by
    this run under the signature '<signature>/under-python-O' (their replay files carry the interpreter flag)."""
    from mc import core

    legs = [l for l in tier_legs if l not in mod.META.get("serial_legs", ()) and l in mod.META.get("optimized_legs", tier_legs)]
    if args.tier == "quick":
        legs = [l for l in legs if l not in mod.META.get("optimized_skip_quick", ())]
    if not legs:
        return
    out = os.path.join(VERIF, ".scratch", "optimized", what)
    os.makedirs(out, exist_ok=True)
    # the second pass also runs under another string-hash seed (set/dict-of-str iteration orders differ from the first pass)
    env = dict(os.environ, VERIF_OUT=out, VERIF_OPTIMIZED_PASS="off", PYTHONHASHSEED="4242")
    cmd = [sys.executable, "-O", "-X", "faulthandler", "-m", "mc.main", what, "--tier", args.tier, "--legs", ",".join(legs)]
    if args.jobs:
        cmd += ["--jobs", str(args.jobs)]
    r = subprocess.run(cmd, cwd=VERIF, env=env, stdout=subprocess.PIPE, stderr=subprocess.STDOUT, universal_newlines=True)
    total.notes["python_O_pass"] = {"legs": legs, "exit": r.returncode}
    try:
        with open(os.path.join(out, "evidence", "%s.json" % what)) as f:
            total.notes["python_O_pass"]["evaluations"] = json.load(f)["coverage"]["evaluations"]
    except Exception:
        pass
    for line in r.stdout.splitlines():
        if line.startswith("VIOLATION property=") and "replay=" in line:
            path = line.split("replay=", 1)[1].strip()
            try:
                with open(path) as f:
                    doc = json.load(f)
                case = dict(doc["case"], python_flags="-O") if isinstance(doc["case"], dict) else {"case": doc["case"], "python_flags": "-O"}
                total.violation(doc["signature"] + "/under-python-O", case, "with assert statements compiled away (python -O): " + str(doc.get("observed", "")))
            except Exception as ex:
                total.error("optimized pass: cannot read %s: %r" % (path, ex))
        elif line.startswith("HARNESS-ERROR"):
            total.error("optimized pass: " + line[:1500])
    if r.returncode not in (0, 1) and not any(l.startswith("HARNESS-ERROR") for l in r.stdout.splitlines()):
        total.error("optimized pass exited with %s: %s" % (r.returncode, r.stdout[-1500:]))


if __name__ == "__main__":
    sys.exit(main())
