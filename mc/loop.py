"""In-process transports handed to ServerProxy(transport=...)."""


class _Base(object):
    def __init__(self):
        self.sent = []  # (host, handler, body)
        self.replies = []
        self.headers = []

    def push_headers(self, headers):
        self.headers.append(headers)

    def pop_headers(self, headers):
        self.headers.pop()

    def close(self):
        pass


class CannedTransport(_Base):
    """Answers every request with the next canned text."""

    def __init__(self, texts):
        _Base.__init__(self)
        self.texts = list(texts)

    def request(self, host, handler, request_body, verbose=0):
        self.sent.append((host, handler, request_body))
        text = self.texts.pop(0) if len(self.texts) > 1 else self.texts[0]
        self.replies.append(text)
        return text


class LoopbackTransport(_Base):
    """Hands the request text to a real dispatcher's marshaled entry point."""

    def __init__(self, dispatcher, dispatch_method=None):
        _Base.__init__(self)
        self.dispatcher = dispatcher
        self.dispatch_method = dispatch_method

    def request(self, host, handler, request_body, verbose=0):
        self.sent.append((host, handler, request_body))
        text = self.dispatcher._marshaled_dispatch(request_body, self.dispatch_method)
        self.replies.append(text)
        return text
