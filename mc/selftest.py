"""Harness proof obligations (./check selftest, also MANIFEST.setup_cmd)."""
import sys
import time


def main():
    t0 = time.time()
    failures = []

    def ok(name, cond, detail=""):
        print("selftest %-55s %s %s" % (name, "ok" if cond else "FAILED", detail))
        if not cond:
            failures.append(name)

    from mc import gen

    a = [repr(gen.tkey(v)) for v in gen.json_values(1, 2)]
    b = [repr(gen.tkey(v)) for v in gen.json_values(1, 2)]
    ok("generators deterministic and duplicate-free", a == b and len(set(a)) == len(a), "n=%d" % len(a))
    ok("compositions(5) has 2^4 members", len(list(gen.compositions(5))) == 16)
    ok("type-exact comparison separates 0/0.0/False/-0.0", len({repr(gen.tkey(v)) for v in (0, 0.0, False, -0.0)}) == 4)

    for name in ("sched", "env"):
        try:
            mod = __import__("mc." + name, fromlist=["selftest"])
        except ModuleNotFoundError:
            continue
        if hasattr(mod, "selftest"):
            for n, cond, detail in mod.selftest():
                ok(n, cond, detail)

    print("selftest finished in %.1fs: %s" % (time.time() - t0, "all ok" if not failures else "FAILED %s" % failures))
    return 2 if failures else 0


if __name__ == "__main__":
    sys.exit(main())
