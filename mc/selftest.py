"""Harness proof obligations (./check selftest, also MANIFEST.setup_cmd)."""
import sys
import time


def main():
    t0 = time.time()
    failures = []

    def ok(name, cond, detail=""):
        print("selftest %-55s %s %s" % (name, "ok" if cond else "FAILED", detail))
        if not cond:
            failures.append(name)

    from mc import gen

    a = [repr(gen.tkey(v)) for v in gen.json_values(1, 2)]
    b = [repr(gen.tkey(v)) for v in gen.json_values(1, 2)]
    ok("generators deterministic and duplicate-free", a == b and len(set(a)) == len(a), "n=%d" % len(a))
    ok("compositions(5) has 2^4 members", len(list(gen.compositions(5))) == 16)
    ok("type-exact comparison separates 0/0.0/False/-0.0", len({repr(gen.tkey(v)) for v in (0, 0.0, False, -0.0)}) == 4)

    # the independent RFC 8259 recogniser and the stdlib parser may only disagree on the non-standard literals
    import json
    from mc import bodies
    from mc.ref import rfc8259

    texts = set(bodies.NONJSON)
    for seed in bodies.SEEDS[:6]:
        texts.update(bodies.truncations(seed))
        texts.update(bodies.corruptions(seed))
    texts.update(["NaN", "[Infinity]", "-Infinity", "{\"a\": NaN}", "1e5", "-0", "0.5e-3", "[1, 2 , {\"a\" : null}] ", "\"\\u00e9\""])
    disagreements = []
    for t in texts:
        try:
            json.loads(t)
            std = True
        except (ValueError, RecursionError):
            std = False
        if std != rfc8259.is_json_text(t) and not ("NaN" in t or "Infinity" in t):
            disagreements.append(t)
    ok("RFC 8259 recogniser agrees with json.loads except on NaN/Infinity", not disagreements, "texts=%d disagreements=%r" % (len(texts), disagreements[:3]))

    # the in-memory network model against kernel sockets (a few C19 sequences; the C19 check runs the full leg)
    try:
        from checks import c19

        mism = []
        for case in [(("OK_KA",), "tcp", "call"), (("CLOSE0", "OK_KA"), "tcp", "call"), (("E5XX_NOLEN",), "unix", "call"), (("REFUSE", "RESET"), "tcp", "batch"),
                     (("TRUNC", "BODILESS"), "unix", "notify")]:
            out = c19.check_kernel(case)
            if not out.match or out.viols:
                mism.append(out.detail)
        ok("in-memory network and kernel sockets give the same outcome classes", not mism, repr(mism[:2]))
    except ImportError:
        pass

    for name in ("sched", "env"):
        try:
            mod = __import__("mc." + name, fromlist=["selftest"])
        except ModuleNotFoundError:
            continue
        if hasattr(mod, "selftest"):
            for n, cond, detail in mod.selftest():
                ok(n, cond, detail)

    print("selftest finished in %.1fs: %s" % (time.time() - t0, "all ok" if not failures else "FAILED %s" % failures))
    return 2 if failures else 0


if __name__ == "__main__":
    sys.exit(main())
