"""Finite grammars of request bodies (texts) for the server-side checks."""
import itertools
import json

ABSENT = "<absent>"

IDS = [ABSENT, None, "", 0, 0.0, -1, 1.5, 2 ** 53, "a", "0", " ", True, False, [], [1], {}, {"a": 1}, 7]
JSONRPC = [ABSENT, "2.0", "1.0", 2.0, None, ""]
METHODS = [ABSENT, None, True, 0, 1.5, "", "pair", "nosuch", [], ["pair"], {}]
PARAMS = [ABSENT, None, True, 0, 1.5, "", "s", [], [1, 2], [1], {}, {"a": 1, "b": 2}, {"x": 1}]


def dumps(v):
    return json.dumps(v, ensure_ascii=False)


def obj(jsonrpc=ABSENT, rid=ABSENT, method=ABSENT, params=ABSENT):
    o = {}
    if jsonrpc is not ABSENT:
        o["jsonrpc"] = jsonrpc
    if method is not ABSENT:
        o["method"] = method
    if params is not ABSENT:
        o["params"] = params
    if rid is not ABSENT:
        o["id"] = rid
    return o


def member_objects():
    """(i) every object over jsonrpc/id/method/params with each member absent or bound to a value of every JSON type."""
    for j, i, m, p in itertools.product(JSONRPC, IDS, METHODS, PARAMS):
        yield obj(j, i, m, p)


TOPLEVEL = [None, True, False, 0, 1, -1, 1.5, "", "a", "pair", [], {}, [[]], [{}], [5], [None], ["a", 1], {"a": 1}]

# sub-alphabet of batch entries: (label, entry)
ENTRIES = [
    ("call2", obj("2.0", 1, "pair", [1, 2])),
    ("call1", obj(ABSENT, 2, "pair", [1, 2])),
    ("notif2", obj("2.0", ABSENT, "f", [7])),
    ("notif1", obj(ABSENT, None, "f", [8])),
    ("notif2-emptyid", obj("2.0", "", "f", [9])),
    ("fail2", obj("2.0", "b", "boom")),
    ("fail1", obj(ABSENT, "c", "boom", [])),
    ("unknown2", obj("2.0", 0, "nosuch", [1])),
    ("arity2", obj("2.0", 1.5, "pair", [1])),
    ("kw2", obj("2.0", "k", "pair", {"a": 1, "b": 2})),
    ("nondict", 5),
    ("emptyobj", {}),
    ("nomethod-id", obj("2.0", 9)),
    ("notif2-unknown", obj("2.0", ABSENT, "nosuch")),
    ("notif2-raise", obj("2.0", ABSENT, "boom")),
    ("notif1-arity", obj(ABSENT, None, "pair", [1])),
    ("call2-idfalse", obj("2.0", False, "ret1")),
    ("call2-idlist", obj("2.0", [1], "ret0")),
    ("call1-idzero", obj(ABSENT, 0, "ret2")),
    ("nullentry", None),
    ("listentry", [1]),
    ("strentry", "pair"),
    ("terr2", obj("2.0", "t", "terr")),
    ("call2-falsy-result", obj("2.0", 3, "ret3")),
    ("retfault2", obj("2.0", "rf", "retfault")),
    ("retfault1", obj(ABSENT, "rg", "retfault", [])),
]
ENTRY_MAP = dict(ENTRIES)
QUICK_ENTRIES = ["call2", "call1", "notif2", "notif1", "fail2", "unknown2", "arity2", "nondict", "emptyobj",
                 "nomethod-id", "notif2-raise", "call1-idzero", "retfault1"]


def batches(labels, maxlen):
    for n in range(1, maxlen + 1):
        for combo in itertools.product(labels, repeat=n):
            yield [ENTRY_MAP[c] for c in combo]


SEEDS = [
    '{"jsonrpc":"2.0","method":"pair","params":[1,2],"id":1}',
    '{"method":"pair","params":[1,2],"id":2}',
    '{"jsonrpc":"2.0","method":"f","params":{"a":"é"}}',
    '[{"jsonrpc":"2.0","method":"f","id":"x"},{"jsonrpc":"2.0","method":"f"}]',
    '{"jsonrpc":"2.0","method":"boom","id":null}',
    '{"id":0,"method":"nosuch","params":[-1.5e1,true,null]}',
    '[1,{"jsonrpc":"2.0","method":"echo","params":["\\u00e9\\n"],"id":[0]}]',
    '{"jsonrpc":"2.0","method":"echo","params":[{"k":[]}],"id":"i"}',
    ' {"jsonrpc" : "2.0" , "method" : "ret1" , "id" : 5 } ',
    '[{"method":"f","id":null,"params":[]}]',
    '{"jsonrpc":"2.0","method":"é","params":["\U0001F600"],"id":"é"}',
    '[[],{},0]',
]
CORRUPTION = list('{}[],:"\\0e- é\x00')


def truncations(seed):
    for n in range(len(seed)):
        yield seed[:n]


def corruptions(seed):
    """Every single-character deletion, substitution and insertion over the corruption alphabet."""
    seen = set()
    for i in range(len(seed)):
        t = seed[:i] + seed[i + 1:]
        if t not in seen:
            seen.add(t)
            yield t
        for c in CORRUPTION:
            t = seed[:i] + c + seed[i + 1:]
            if t != seed and t not in seen:
                seen.add(t)
                yield t
    for i in range(len(seed) + 1):
        for c in CORRUPTION:
            t = seed[:i] + c + seed[i:]
            if t not in seen:
                seen.add(t)
                yield t


NONJSON = [
    "\ufeff{}", "\ufeff", " ", "\n", "\t\r\n", "nul", "nulll", "tru", "True", "None", "undefined", "'a'", "{'a':1}",
    "\u202e{}", "{}\u200f", "\x00", "\x1f", "\x7f", "\"\x01\"", "\"\\ud800\"", "\"\\udc00\\ud800\"", "\"\\u12\"", "\"\\x41\"",
    "01", "1.", ".5", "+1", "1e", "--1", "0x10", "1,2", "[1,]", "[,1]", "{,}", "{\"a\"}", "{\"a\":}", "{1:2}", "[1 2]",
    "{\"a\":1,}", "// c\n{}", "/* c */ {}", "{} {}", "[] []", "é", "€", "\U0001F600", "\"unterminated", "[" * 30, "{\"a\":" * 10,
    "{\"jsonrpc\":\"2.0\",\"method\":\"f\",\"id\":1}{", "\u2028", "\u00a0{}", "{}\u00a0", "\\", "\"", "'", "<xml/>", "id=1&method=f",
]


# -- bodies beyond the small scope: one representative per size dimension -----------------------------------
# A case names its body as ("GEN", kind, n); the text is built where it is evaluated (replay files stay small).

SCALE_KINDS = ["batch-calls", "batch-notifs", "batch-mixed", "batch-errors", "deep-params", "deep-dict-params", "long-string", "wide-params",
               "long-method", "long-id", "deep-id", "many-members"]


def _nest(n, leaf, dicts=False):
    v = leaf
    for _ in range(n):
        v = {"k": v} if dicts else [v]
    return v


def scale_body(kind, n):
    if kind == "batch-calls":
        return dumps([obj("2.0", i, "ret1") for i in range(n)])
    if kind == "batch-notifs":
        return dumps([obj("2.0", ABSENT, "f", [i]) for i in range(n)] + [obj("2.0", "last", "pair", [1, 2])])
    if kind == "batch-mixed":
        cyc = [lambda i: obj("2.0", i, "pair", [i, 2]), lambda i: obj(ABSENT, "s%d" % i, "ret0", []), lambda i: obj("2.0", ABSENT, "f", [i]),
               lambda i: obj("2.0", i, "boom"), lambda i: i, lambda i: obj("2.0", i, "nosuch")]
        return dumps([cyc[i % len(cyc)](i) for i in range(n)])
    if kind == "batch-errors":
        return dumps([obj("2.0", i, "boom") if i % 2 else {} for i in range(n)])
    if kind == "deep-params":
        return dumps(obj("2.0", 1, "echo", [_nest(n, 0)]))
    if kind == "deep-dict-params":
        return dumps(obj("2.0", 1, "echo", {"x": _nest(n, "é", dicts=True)}))
    if kind == "long-string":
        return dumps(obj("2.0", 1, "echo", ["a bé" * n]))
    if kind == "wide-params":
        return dumps(obj("2.0", 1, "echo", [list(range(n))]))
    if kind == "long-method":
        return dumps(obj("2.0", 1, "m" * n, []))
    if kind == "long-id":
        return dumps(obj("2.0", "i" * n, "pair", [1, 2]))
    if kind == "deep-id":
        return dumps(obj("2.0", _nest(n, 1), "ret1"))
    if kind == "many-members":
        o = obj("2.0", 1, "pair", [1, 2])
        for i in range(n):
            o["x%d" % i] = i
        return dumps(o)
    raise AssertionError(kind)


def realise(body):
    if isinstance(body, tuple) and body and body[0] == "GEN":
        return scale_body(body[1], body[2])
    return body
