"""Canary module: importing it or constructing Boom leaves a trace (used by the C08 check)."""
import builtins

builtins.__dict__.setdefault("_mc_canary_flags", []).append("imported")


class Boom(object):
    def __init__(self, *a, **k):
        builtins.__dict__.setdefault("_mc_canary_flags", []).append("constructed")
