"""Shared plumbing: result accumulation, sharded execution, evidence files,
replay files, known findings and exit status.

Every check module in checks/ exposes

    LEGS            ordered dict name -> leg function  leg(part, tier, shard, nshards)
    replay(case)    re-runs one recorded case, returns a list of (signature, detail)
    META            dict(level_rule=..., assumptions=[...], exhaustive=bool, bounds=callable(tier))

A *leg* enumerates a finite space completely.  It is executed in `nshards`
worker processes; shard i evaluates the cases whose running index is congruent
to i (the enumeration itself is deterministic and identical in all workers, so
the union over shards is the whole space, whatever VERIF_SEED is).
"""
import hashlib
import json
import multiprocessing
import os
import sys
import time
import traceback

VERIF = os.path.dirname(os.path.dirname(os.path.abspath(__file__)))
# runs against a scratch copy of the repository (seeded changes) keep their output away from the committed evidence
_SCRATCH_RUN = os.path.abspath(os.environ.get("VERIF_REPO", "/repo")) != "/repo"
OUT = os.environ.get("VERIF_OUT") or (os.path.join(VERIF, ".scratch") if _SCRATCH_RUN else VERIF)
NPROC = int(os.environ.get("VERIF_JOBS", "0") or 0) or min(16, os.cpu_count() or 1)


def jsonable(x, depth=0):
    """Best-effort conversion of a case/observation to JSON-serialisable data."""
    if depth > 12:
        return repr(x)
    if x is None or isinstance(x, (bool, int, str)):
        return x
    if isinstance(x, float):
        if x != x or x in (float("inf"), float("-inf")):
            return repr(x)
        return x
    if isinstance(x, bytes):
        return {"__bytes__": x.decode("latin-1")}
    if isinstance(x, (list, tuple)):
        return [jsonable(i, depth + 1) for i in x]
    if isinstance(x, (set, frozenset)):
        return {"__set__": sorted((jsonable(i, depth + 1) for i in x), key=repr)}
    if isinstance(x, dict):
        return {
            (k if isinstance(k, str) else "<%s>" % repr(k)): jsonable(v, depth + 1)
            for k, v in x.items()
        }
    return repr(x)


def h64(obj):
    return int.from_bytes(
        hashlib.blake2b(repr(obj).encode("utf-8", "surrogatepass"), digest_size=8).digest(),
        "big",
    )


class Part(object):
    """Picklable partial result of one shard of one leg."""

    MAX_PER_SIG = 1

    def __init__(self):
        self.evals = {}  # leg -> evaluations
        self.nontrivial = {}  # leg -> set(hash)
        self.classes = {}  # leg -> {class label: count}
        self.viol = {}  # signature -> [count, case, detail, rank]
        self.samples = {}  # leg -> list
        self.counters = {}  # free-form integer counters (states, transitions, ...)
        self.notes = {}  # free-form informational values (last writer wins)
        self.sets = {}  # name -> set(hash) (e.g. distinct states)
        self.errors = []  # harness errors (exit 2)
        self.leg = "main"

    # -- recording ---------------------------------------------------------
    def case(self, nontrivial_key=None, cls=None, sample=None, leg=None):
        """Account for one evaluated case.

        nontrivial_key: hashable identifying the case when it is non-trivial
                        by the leg's rule (None when trivial)
        cls: short label of the behaviour class observed (for the
             'distinct observed outcomes' vacuity figure)
        """
        leg = leg or self.leg
        self.evals[leg] = self.evals.get(leg, 0) + 1
        if nontrivial_key is not None:
            self.nontrivial.setdefault(leg, set()).add(h64(nontrivial_key))
        if cls is not None:
            d = self.classes.setdefault(leg, {})
            d[cls] = d.get(cls, 0) + 1
        if sample is not None:
            s = self.samples.setdefault(leg, [])
            if len(s) < 2:
                s.append(jsonable(sample))

    def count(self, name, n=1):
        self.counters[name] = self.counters.get(name, 0) + n

    def add_to_set(self, name, key):
        self.sets.setdefault(name, set()).add(h64(key))

    def violation(self, signature, case, detail, rank=None):
        """Record a violation.  `signature` groups violations that share one
        failing call site / input class; `case` must be enough for replay()."""
        case = jsonable(case)
        if rank is None:
            rank = len(json.dumps(case, sort_keys=True, default=repr))
        cur = self.viol.get(signature)
        if cur is None:
            self.viol[signature] = [1, case, str(detail)[:2000], rank]
        else:
            cur[0] += 1
            if rank < cur[3]:
                cur[1], cur[2], cur[3] = case, str(detail)[:2000], rank

    def error(self, msg):
        self.errors.append(str(msg)[:4000])

    # -- merging -----------------------------------------------------------
    def merge(self, other):
        for k, v in other.evals.items():
            self.evals[k] = self.evals.get(k, 0) + v
        for k, v in other.nontrivial.items():
            self.nontrivial.setdefault(k, set()).update(v)
        for k, v in other.sets.items():
            self.sets.setdefault(k, set()).update(v)
        for leg, d in other.classes.items():
            mine = self.classes.setdefault(leg, {})
            for c, n in d.items():
                mine[c] = mine.get(c, 0) + n
        for sig, (n, case, detail, rank) in other.viol.items():
            cur = self.viol.get(sig)
            if cur is None:
                self.viol[sig] = [n, case, detail, rank]
            else:
                cur[0] += n
                if (rank, json.dumps(case, sort_keys=True, default=repr)) < (
                    cur[3],
                    json.dumps(cur[1], sort_keys=True, default=repr),
                ):
                    cur[1], cur[2], cur[3] = case, detail, rank
        for leg, s in other.samples.items():
            mine = self.samples.setdefault(leg, [])
            for x in s:
                if len(mine) < 3:
                    mine.append(x)
        for k, v in other.counters.items():
            self.counters[k] = self.counters.get(k, 0) + v
        self.notes.update(other.notes)
        self.errors.extend(other.errors)


def _run_shard(args):
    modname, legname, tier, shard, nshards = args
    part = Part()
    part.leg = legname
    try:
        mod = __import__(modname, fromlist=["LEGS"])
        t0 = time.time()
        mod.LEGS[legname](part, tier, shard, nshards)
        part.counters["cpu_ms:" + legname] = int((time.time() - t0) * 1000)
    except BaseException:  # harness error, never a property verdict
        part.error("leg %s shard %d/%d crashed:\n%s" % (legname, shard, nshards, traceback.format_exc()))
    return part


def run_legs(modname, legs, tier, nproc=None, serial_legs=()):
    """Runs every leg of a check, sharded over worker processes."""
    nproc = nproc or NPROC
    total = Part()
    jobs = []
    for leg in legs:
        if leg in serial_legs:
            # legs that fan out over all cores themselves (schedule exploration) run in this process
            total.merge(_run_shard((modname, leg, tier, 0, 1)))
            continue
        for s in range(nproc):
            jobs.append((modname, leg, tier, s, nproc))
    if not jobs:
        return total
    if nproc == 1 or len(jobs) == 1:
        for j in jobs:
            total.merge(_run_shard(j))
        return total
    ctx = multiprocessing.get_context("fork")
    with ctx.Pool(min(nproc, len(jobs)), maxtasksperchild=None) as pool:
        for part in pool.imap_unordered(_run_shard, jobs, chunksize=1):
            total.merge(part)
    return total


# ---------------------------------------------------------------------------
# known findings


def load_known():
    path = os.path.join(VERIF, "known_findings.json")
    try:
        with open(path) as f:
            data = json.load(f)
    except FileNotFoundError:
        return {}
    known = {}
    for entry in data.get("findings", []):
        known[(entry["property"], entry["signature"])] = entry
    return known


# ---------------------------------------------------------------------------
# finishing: evidence, replay files, verdict


def write_replay(prop, signature, case, detail, count):
    d = os.path.join(OUT, "replays")
    os.makedirs(d, exist_ok=True)
    name = "%s-%s.json" % (prop, hashlib.blake2b(signature.encode(), digest_size=5).hexdigest())
    path = os.path.join(d, name)
    doc = {
        "property": prop,
        "signature": signature,
        "occurrences_in_run": count,
        "case": case,
        "observed": detail,
        "how_to_replay": "cd /verif && ./check %s --replay %s" % (prop, path),
        "unittest": (
            "import unittest, json, subprocess\n"
            "class Replay(unittest.TestCase):\n"
            "    def test_replay(self):\n"
            "        r = subprocess.run(['/verif/check', %r, '--replay', %r])\n"
            "        self.assertEqual(r.returncode, 0)\n" % (prop, path)
        ),
    }
    with open(path, "w") as f:
        json.dump(doc, f, indent=1, sort_keys=True, default=repr)
    return path


_MIN_EVIDENCE_KEYS = ("property_id", "tier", "seed", "level", "coverage", "wall_s")


def validate_evidence(doc):
    """Hand-rolled subset of EVIDENCE.schema.json (jsonschema is not in /venv)."""
    for k in _MIN_EVIDENCE_KEYS:
        assert k in doc, "evidence lacks %s" % k
    assert doc["tier"] in ("quick", "thorough")
    assert isinstance(doc["seed"], int)
    cov = doc["coverage"]
    assert isinstance(cov.get("evaluations"), int) and cov["evaluations"] >= 1
    assert isinstance(cov.get("distinct_nontrivial"), int) and cov["distinct_nontrivial"] >= 2, cov.get(
        "distinct_nontrivial"
    )
    assert isinstance(cov.get("rule"), str)
    assert isinstance(cov.get("samples"), list) and len(cov["samples"]) >= 1
    if all(k in cov for k in ("states", "transitions", "traces_validated_against_impl")):
        assert cov["states"] >= 1 and cov["transitions"] >= 1 and cov["traces_validated_against_impl"] >= 0
    json.dumps(doc)


def finish(prop, tier, seed, total, meta, t0, legs):
    """Writes the evidence file, prints verdict lines, returns the exit code."""
    known = load_known()
    wall = time.time() - t0
    unlisted = []
    listed = []
    for sig in sorted(total.viol, key=lambda s: (total.viol[s][3], s)):
        n, case, detail, rank = total.viol[sig]
        if (prop, sig) in known:
            listed.append((sig, n, case, detail))
        else:
            unlisted.append((sig, n, case, detail))

    evaluations = sum(total.evals.values())
    nontrivial = sum(len(v) for v in total.nontrivial.values())
    samples = []
    for leg in legs:
        for s in total.samples.get(leg, [])[:2]:
            samples.append({"leg": leg, "case": s})
    if len(samples) < 4:
        # schedule-exploration legs record their samples under the harness labels
        extra = []
        for leg in sorted(total.samples):
            if leg in legs:
                continue
            for s in total.samples[leg]:
                extra.append({"leg": leg, "case": s})
        # prefer executions with many choice points and with deviations from the default schedule
        extra.sort(key=lambda e: -(len(e["case"].get("schedule", ())) + 50 * sum(1 for c in e["case"].get("schedule", ()) if c))
                   if isinstance(e["case"], dict) else 0)
        samples.extend(extra[:5])
    classes = {leg: dict(sorted(d.items(), key=lambda kv: -kv[1])[:40]) for leg, d in total.classes.items()}
    coverage = {
        "evaluations": evaluations,
        "distinct_nontrivial": nontrivial,
        "rule": meta.get("rule", ""),
        "samples": samples or [{"note": "no sample recorded"}],
        "exhaustive": bool(meta.get("exhaustive", True)) and not total.counters.get("caps_hit", 0),
        "per_leg_evaluations": dict(total.evals),
        "per_leg_distinct_nontrivial": {k: len(v) for k, v in total.nontrivial.items()},
        "distinct_observed_outcome_classes": {k: len(v) for k, v in total.classes.items()},
        "observed_outcome_classes": classes,
        "bounds": meta.get("bounds", {}).get(tier, meta.get("bounds", {})),
        "caps_hit": total.counters.get("caps_hit", 0),
        "counters": {k: v for k, v in sorted(total.counters.items())},
        "notes": total.notes,
        "technique": meta.get("technique", ""),
        "repo": os.environ.get("VERIF_REPO", "/repo"),
        "workers": NPROC,
        "known_findings_reported": [s for s, _, _, _ in listed],
        "violation_signatures": [s for s, _, _, _ in unlisted],
    }
    for name, st in total.sets.items():
        coverage["distinct_" + name] = len(st)
    if "states" in total.sets or "states" in total.counters:
        coverage["states"] = len(total.sets.get("states", ())) or total.counters.get("states", 0)
        coverage["transitions"] = total.counters.get("transitions", 0)
        coverage["traces_validated_against_impl"] = total.counters.get("traces_validated_against_impl", 0)
    doc = {
        "property_id": prop,
        "tier": tier,
        "seed": seed,
        "level": meta.get("level", "model_checking"),
        "coverage": coverage,
        "assumptions": meta.get("assumptions", []),
        "wall_s": round(wall, 2),
        "violations": len(unlisted),
    }
    code = 0
    if total.errors:
        for e in total.errors[:5]:
            print("HARNESS-ERROR property=%s %s" % (prop, e), flush=True)
        code = 2
    try:
        validate_evidence(doc)
    except AssertionError as ex:
        print("HARNESS-ERROR property=%s evidence invalid: %s" % (prop, ex), flush=True)
        code = 2
    os.makedirs(os.path.join(OUT, "evidence"), exist_ok=True)
    with open(os.path.join(OUT, "evidence", prop + ".json"), "w") as f:
        json.dump(doc, f, indent=1, sort_keys=True, default=repr)
        f.write("\n")

    for sig, n, case, detail in listed:
        print(
            "KNOWN-FINDING: property=%s %s (%d occurrences; %s)"
            % (prop, sig, n, known[(prop, sig)].get("description", "")),
            flush=True,
        )
    for sig, n, case, detail in unlisted:
        path = write_replay(prop, sig, case, detail, n)
        print("  signature=%s occurrences=%d\n  observed: %s" % (sig, n, detail[:600]))
        print("VIOLATION property=%s replay=%s" % (prop, path), flush=True)
        # a violation with a replay file outranks harness trouble seen in the same run (typically caused by the same change:
        # e.g. module-level state that makes two runs of one schedule differ)
        code = 1
    legs_txt = dict(total.evals) if len(total.evals) <= 8 else "%d legs/harnesses" % len(total.evals)
    cls_txt = ({k: len(v) for k, v in total.classes.items()} if len(total.classes) <= 8
               else "%d distinct" % sum(len(v) for v in total.classes.values()))
    extra = ""
    if "states" in coverage:
        extra = " states=%d transitions=%d" % (coverage["states"], coverage["transitions"])
    print(
        "%s tier=%s evaluations=%d distinct_nontrivial=%d%s legs=%s outcome-classes=%s wall=%.1fs -> %s"
        % (
            prop,
            tier,
            evaluations,
            nontrivial,
            extra,
            legs_txt,
            cls_txt,
            wall,
            {0: "HOLDS on everything explored", 1: "VIOLATED", 2: "HARNESS ERROR"}[code],
        ),
        flush=True,
    )
    return code


# ---------------------------------------------------------------------------
# driving an enumeration leg


class Out(object):
    """Verdict of one evaluated case."""

    __slots__ = ("viols", "cls", "nontrivial", "__dict__")

    def __init__(self, cls=None, nontrivial=True):
        self.viols = []
        self.cls = cls
        self.nontrivial = nontrivial

    def bad(self, signature, detail):
        self.viols.append((signature, str(detail)))
        return self


CASE_TIMEOUT = int(os.environ.get("VERIF_CASE_TIMEOUT", "150"))


class CaseTimeout(BaseException):
    pass


class case_watchdog(object):
    """Wall-clock watchdog around one case (main thread of the worker process only): turns an endless loop in the code under
    test into CaseTimeout.  It never fires on the unchanged tree unless a case takes 150 s instead of milliseconds."""

    def __init__(self, seconds):
        self.seconds = seconds

    def __enter__(self):
        import signal
        import threading

        self.armed = threading.current_thread() is threading.main_thread()
        if self.armed:
            def fire(signum, frame):
                raise CaseTimeout()
            self.old = signal.signal(signal.SIGALRM, fire)
            signal.setitimer(signal.ITIMER_REAL, self.seconds)
        return self

    def __exit__(self, *a):
        if self.armed:
            import signal

            signal.setitimer(signal.ITIMER_REAL, 0)
            signal.signal(signal.SIGALRM, self.old)
        return False


def drive(part, leg, cases, shard, nshards, evaluate, encode=repr):
    """Evaluates every case of `cases` that belongs to this shard.

    cases: deterministic iterable (identical in every worker);
    evaluate(case) -> Out.  An exception escaping `evaluate` is a harness error.
    """
    part.leg = leg
    prop = os.environ.get("VERIF_PROPERTY", "C00")
    timeouts = 0
    for i, case in enumerate(cases):
        if i % nshards != shard:
            continue
        try:
            with case_watchdog(CASE_TIMEOUT if not timeouts else 10):
                out = evaluate(case)
        except CaseTimeout:
            timeouts += 1
            # the code under test spins without ever calling back into the harness: a verdict, not a harness error
            part.case(nontrivial_key=(leg, encode(case)), cls="does-not-terminate", sample=None, leg=leg)
            part.violation("%s/case-does-not-terminate" % prop, {"leg": leg, "index": i, "case": encode(case)},
                           "case %s of leg %s did not finish within %d s of wall-clock time (cases of this leg take milliseconds)" % (encode(case)[:300], leg, CASE_TIMEOUT), rank=i)
            if timeouts >= 3:
                part.notes.setdefault("legs_abandoned", []).append("%s shard %d: abandoned after 3 non-terminating cases" % (leg, shard))
                return
            continue
        except Exception:
            part.error("evaluate crashed in leg %s on case %r:\n%s" % (leg, case, traceback.format_exc()))
            if len(part.errors) > 3:
                return
            continue
        enc = encode(case)
        part.case(
            nontrivial_key=(leg, enc) if out.nontrivial else None,
            cls=out.cls,
            sample=({"case": enc, "class": out.cls} if i < 4 * nshards else None),
            leg=leg,
        )
        for sig, detail in out.viols:
            part.violation(sig, {"leg": leg, "index": i, "case": enc}, detail, rank=i)
