"""E1 - cooperative, deterministic scheduler over real OS threads.

The library under test reaches concurrency through the module globals
`threading` and `queue` (jsonrpclib.threadpool), `threading`/`selectors`/
`socket` (socketserver).  `install()` rebinds those names to the shim objects
defined here; from then on exactly one managed thread runs at any time and
every synchronisation operation (and, optionally, every source line of the
audited files) is a scheduling point at which the scheduler consults a recorded
choice sequence.  Time is virtual: it advances only when a timed wait fires.
"""
import _thread
import collections
import os
import sys
import threading as _rt
import types

MAX_FORCED_FIRES = 300  # forced timer firings in one execution before it is declared non-terminating
WATCHDOG_S = float(os.environ.get("VERIF_WATCHDOG", "120"))


class Abort(BaseException):
    """Raised inside managed threads to unwind them at the end of an execution."""


class HarnessError(Exception):
    """Nondeterminism or an escape from the scheduler: never a property verdict."""


S = None  # the scheduler of the execution in progress


class _Carrier(object):
    """A reusable OS thread: managed threads of successive executions run on carriers instead of fresh OS threads."""

    def __init__(self):
        self.wake = _rt.Semaphore(0)
        self.job = None
        self.t = _rt.Thread(target=self.loop, daemon=True, name="mc-carrier")
        self.t.start()

    def loop(self):
        while True:
            self.wake.acquire()
            job, self.job = self.job, None
            try:
                job()
            finally:
                _IDLE.append(self)


_IDLE = []


def _spawn(job):
    try:
        c = _IDLE.pop()
    except IndexError:
        c = _Carrier()
    c.job = job
    c.wake.release()
    return c


os.register_at_fork(after_in_child=lambda: _IDLE.__delitem__(slice(None)))


class MThread(object):
    """threading.Thread replacement backed by a real OS thread gated by a baton."""

    def __init__(self, group=None, target=None, name=None, args=(), kwargs=None, daemon=None):
        self._target, self._args, self._kwargs = target, args, kwargs or {}
        self.name = name or "T?"
        self.daemon = bool(daemon)
        self.state = "new"  # new / run / done
        self.pred = None  # enabling predicate while blocked
        self.deadline = None
        self.timed_out = False
        self.fired_forced = False  # the last timeout of this thread fired because nothing else could run
        self.why = ""  # description of what the thread is blocked on
        self.baton = _rt.Semaphore(0)
        self.os = None
        self.index = None
        self.exc = None
        self.ident = None
        self.line = None  # last audited (file, line)

    # --- threading.Thread API ---------------------------------------------
    def start(self):
        if self.state != "new":
            raise RuntimeError("threads can only be started once")
        s = S
        s.point("thread.start")
        # environment fault owned by the harness: the n-th start of a thread whose name begins with the given prefix fails the
        # way the interpreter fails under resource exhaustion
        fault = getattr(s.harness, "thread_start_fault", None) if getattr(s, "harness", None) is not None else None
        if fault is not None and self.name.startswith(fault[0]):
            s.start_count = getattr(s, "start_count", 0) + 1
            if s.start_count in fault[1]:
                raise RuntimeError("can't start new thread")
        self.state = "run"
        self.index = len(s.threads)
        self.ident = 1000 + self.index
        if self.name == "T?":
            self.name = "T%d" % self.index
        s.threads.append(self)
        self.created_at = s.nsteps
        self.os = _spawn(lambda: self._boot(s))

    def run(self):
        if self._target is not None:
            self._target(*self._args, **self._kwargs)

    def _boot(self, s):
        try:
            self.baton.acquire()
            if s.aborting:
                self.state = "done"
                return
            if s.tracer is not None:
                sys.settrace(s.tracer)
            try:
                self.run()
            except Abort:
                pass
            except BaseException as ex:  # noqa - recorded, the harness decides
                self.exc = ex
            finally:
                sys.settrace(None)
                self.state = "done"
                self.finished_at = s.nsteps
                if not s.aborting:
                    try:
                        s.thread_finished(self)
                    except Abort:
                        pass
        finally:
            s.exit_sem.release()

    def is_alive(self):
        return self.state == "run"

    isAlive = is_alive

    def join(self, timeout=None):
        s = S
        s.point("thread.join")
        if self.state == "new":
            raise RuntimeError("cannot join thread before it is started")
        if self.state == "done":
            return
        s.block(lambda: self.state == "done", timeout, "join(%s)" % self.name)

    def __repr__(self):
        return "<MThread %s %s>" % (self.name, self.state)


class _Point(object):
    __slots__ = ("choice", "nopts", "cur_enabled", "fire_index", "kind", "tid")

    def __init__(self, choice, nopts, cur_enabled, fire_index, kind, tid):
        self.choice, self.nopts, self.cur_enabled, self.fire_index, self.kind, self.tid = (
            choice, nopts, cur_enabled, fire_index, kind, tid)


class Scheduler(object):
    def __init__(self, choices=(), timer_budget=0, audited=(), step=None, expect=None, opcode_funcs=()):
        self.threads = []
        self.cur = None
        self.choices = list(choices)
        self.expect = expect  # optional list of nopts recorded by the run this prefix comes from
        self.points = []  # choice points only
        self.nsteps = 0  # every scheduling point
        self.now = 0.0
        self.timer_budget = timer_budget
        self.fires_forced = 0
        self.fires_chosen = 0
        self.aborting = False
        self.status = None  # ok / deadlock / livelock
        self.done_sem = _rt.Semaphore(0)
        self.exit_sem = _rt.Semaphore(0)  # released once by every managed thread when its body has unwound
        self.step = step
        self.audited = frozenset(audited)
        self.opcode_funcs = frozenset(opcode_funcs)
        self.tracer = self._make_tracer() if self.audited else None
        self.trace_log = []  # (tid, kind) for replay determinism checks
        self.record_trace = False
        self.fingerprints = None  # set() when state counting is on
        self.abstract = None  # callable -> hashable, harness part of the fingerprint
        self.postmortem = False  # set while final() inspects the parked world: shim operations never switch
        self.lenient = False  # replay on a tree other than the one the schedule was recorded on: out-of-range choices become 0

    # --- tracing ------------------------------------------------------------
    def _make_tracer(self):
        audited = self.audited
        opf = self.opcode_funcs
        sched = self

        def local(frame, event, arg):
            if event == "line":
                t = sched.cur
                t.line = (frame.f_code.co_filename, frame.f_lineno)
                sched.point("line")
            elif event == "opcode":
                sched.point("opcode")
            return local

        def tracer(frame, event, arg):
            code = frame.f_code
            if code.co_filename not in audited:
                return None
            if opf and code.co_qualname in opf:
                frame.f_trace_opcodes = True
            return local

        return tracer

    # --- options --------------------------------------------------------------
    def _enabled(self, t):
        return t.state == "run" and (t.pred is None or t.pred())

    def _options(self):
        cur = self.cur
        opts = []
        cur_enabled = cur is not None and self._enabled(cur)
        if cur_enabled:
            opts.append(cur)
        for t in self.threads:
            if t is not cur and self._enabled(t):
                opts.append(t)
        fire = None
        if self.fires_chosen < self.timer_budget and opts:
            fire = self._earliest_timer(exclude=opts)
        return opts, cur_enabled, fire

    def _earliest_timer(self, exclude=()):
        best = None
        for t in self.threads:
            if t.state == "run" and t.deadline is not None and t not in exclude and t.pred is not None:
                if best is None or t.deadline < best.deadline:
                    best = t
        return best

    def _fire(self, t, forced=False):
        self.now = max(self.now, t.deadline)
        t.timed_out = True
        t.fired_forced = forced
        t.pred = None
        t.deadline = None

    # --- the scheduling point -----------------------------------------------------
    def point(self, kind):
        if self.postmortem:
            return
        if self.aborting:
            raise Abort()
        me = self.cur
        self.nsteps += 1
        if self.step is not None:
            self.step(self)
        self._switch(kind)

    def _switch(self, kind):
        me = self.cur
        while True:
            opts, cur_enabled, fire = self._options()
            if opts:
                break
            # nobody can run: fire the earliest timer for free, or stop
            t = self._earliest_timer()
            main_done = self.threads[0].state == "done"
            if t is None or main_done:
                self._end("ok" if main_done else "deadlock")
                return
            self.fires_forced += 1
            if self.fires_forced > MAX_FORCED_FIRES:
                # timers keep firing but the main thread never completes
                self._end("livelock")
                return
            self._fire(t, forced=True)
        nopts = len(opts) + (1 if fire is not None else 0)
        if nopts == 1:
            nxt = opts[0]
        else:
            i = len(self.points)
            if i < len(self.choices):
                c = self.choices[i]
                if self.expect is not None and i < len(self.expect) and self.expect[i] != nopts:
                    self.status = "diverged"
                    self.diverged = "choice point %d has %d options, the recorded run had %d" % (i, nopts, self.expect[i])
                    self._end("diverged")
                    return
                if c >= nopts:
                    if self.lenient:
                        c = 0
                    else:
                        self.diverged = "choice %d out of range (%d options) at point %d" % (c, nopts, i)
                        self._end("diverged")
                        return
            else:
                c = 0
            self.points.append(_Point(c, nopts, cur_enabled, len(opts) if fire is not None else -1, kind,
                                      me.index if me is not None else -1))
            if self.fingerprints is not None:
                self.fingerprints.add(self._fingerprint())
            if fire is not None and c == len(opts):
                self.fires_chosen += 1
                self._fire(fire)
                nxt = fire
            else:
                nxt = opts[c]
        if self.record_trace:
            self.trace_log.append((nxt.index, kind, nxt.line))
        if nxt is not me:
            self.cur = nxt
            nxt.baton.release()
            if me is not None and me.state == "run":
                me.baton.acquire()
                if self.aborting:
                    raise Abort()

    def _end(self, status):
        if self.status in (None, "diverged"):
            self.status = status
        me = self.cur
        self.done_sem.release()
        if me is not None and me.state == "run":
            me.baton.acquire()  # parked until the execution is torn down
            raise Abort()

    def block(self, pred, timeout=None, why=""):
        """Blocks the current thread until pred() holds or the (virtual) timeout fires."""
        me = self.cur
        if self.postmortem:
            return bool(pred())
        if timeout is not None and timeout <= 0:
            return bool(pred())
        me.pred = pred
        me.why = why
        me.timed_out = False
        me.deadline = None if timeout is None else self.now + timeout
        try:
            self._switch("block:" + why)
        finally:
            ok = not me.timed_out
            me.pred = None
            me.deadline = None
            me.why = ""
        return ok

    def sleep(self, seconds):
        """Virtual sleep: other timers with earlier deadlines fire first."""
        self.point("sleep")
        self.block(lambda: False, seconds, "sleep")

    def thread_finished(self, t):
        self._switch("finish")

    # --- fingerprint ------------------------------------------------------------------
    def _fingerprint(self):
        parts = []
        for t in self.threads:
            parts.append((t.state, t.why, t.line, t.deadline is not None))
        a = self.abstract() if self.abstract is not None else None
        return hash((tuple(parts), a, self.cur.index if self.cur else -1))

    def stuck(self):
        """Threads that are neither finished nor in a timed wait at the end."""
        return [t for t in self.threads if t.state == "run" and t.deadline is None]


# ---------------------------------------------------------------------------
# shim synchronisation primitives


def current_thread():
    return S.cur


class Lock(object):
    _reentrant = False

    def __init__(self):
        self.owner = None
        self.count = 0

    def acquire(self, blocking=True, timeout=-1):
        s = S
        s.point("lock.acquire")
        me = s.cur
        if self.owner is not None and not (self._reentrant and self.owner is me):
            if not blocking:
                return False
            ok = s.block(lambda: self.owner is None, None if timeout is None or timeout < 0 else timeout, "lock")
            if not ok:
                return False
        self.owner = me
        self.count += 1
        return True

    def release(self):
        if self.owner is None:
            raise RuntimeError("release unlocked lock")
        if self._reentrant and self.owner is not S.cur:
            raise RuntimeError("cannot release un-acquired lock")
        self.count -= 1
        if self.count == 0:
            self.owner = None

    def __enter__(self):
        self.acquire()
        return True

    def __exit__(self, *a):
        self.release()

    def locked(self):
        return self.owner is not None

    def _is_owned(self):
        return self.owner is S.cur

    # used by Condition
    def _release_save(self):
        st = (self.owner, self.count)
        self.owner, self.count = None, 0
        return st

    def _acquire_restore(self, st):
        s = S
        if self.owner is not None:
            s.block(lambda: self.owner is None, None, "lock(reacquire)")
        self.owner, self.count = st


class RLock(Lock):
    _reentrant = True


class Condition(object):
    def __init__(self, lock=None):
        self._lock = lock if lock is not None else RLock()
        self.acquire = self._lock.acquire
        self.release = self._lock.release
        self._waiters = []

    def __enter__(self):
        return self._lock.__enter__()

    def __exit__(self, *a):
        return self._lock.__exit__(*a)

    def wait(self, timeout=None):
        s = S
        if not self._lock._is_owned():
            raise RuntimeError("cannot wait on un-acquired lock")
        tok = [False]
        self._waiters.append(tok)
        st = self._lock._release_save()
        try:
            ok = s.block(lambda: tok[0], timeout, "cond.wait")
        finally:
            if tok in self._waiters:
                self._waiters.remove(tok)
            self._lock._acquire_restore(st)
        return ok

    def wait_for(self, predicate, timeout=None):
        endtime = None
        result = predicate()
        while not result:
            if timeout is not None:
                if endtime is None:
                    endtime = S.now + timeout
                wt = endtime - S.now
                if wt <= 0:
                    break
                self.wait(wt)
            else:
                self.wait(None)
            result = predicate()
        return result

    def notify(self, n=1):
        if not self._lock._is_owned():
            raise RuntimeError("cannot notify on un-acquired lock")
        S.point("cond.notify")
        for tok in self._waiters[:n]:
            tok[0] = True
        del self._waiters[:n]

    def notify_all(self):
        self.notify(len(self._waiters))

    notifyAll = notify_all


class Event(object):
    def __init__(self):
        self._flag = False

    def is_set(self):
        S.point("event.is_set")
        return self._flag

    isSet = is_set

    def set(self):
        S.point("event.set")
        self._flag = True

    def clear(self):
        S.point("event.clear")
        self._flag = False

    def wait(self, timeout=None):
        s = S
        s.point("event.wait")
        if self._flag:
            return True
        s.block(lambda: self._flag, timeout, "event.wait")
        return self._flag


class Semaphore(object):
    def __init__(self, value=1):
        self._value = value

    def acquire(self, blocking=True, timeout=None):
        s = S
        s.point("sem.acquire")
        if self._value <= 0:
            if not blocking:
                return False
            if not s.block(lambda: self._value > 0, timeout, "sem"):
                return False
        self._value -= 1
        return True

    def release(self, n=1):
        S.point("sem.release")
        self._value += n

    __enter__ = acquire

    def __exit__(self, *a):
        self.release()


BoundedSemaphore = Semaphore


class _Local(object):
    """threading.local over managed threads."""

    def __init__(self):
        object.__setattr__(self, "_d", {})

    def _ns(self):
        return object.__getattribute__(self, "_d").setdefault(S.cur, {})

    def __getattr__(self, k):
        try:
            return self._ns()[k]
        except KeyError:
            raise AttributeError(k)

    def __setattr__(self, k, v):
        self._ns()[k] = v


def _get_ident():
    return S.cur.ident


shim_threading = types.SimpleNamespace(
    Thread=MThread, Lock=Lock, RLock=RLock, Condition=Condition, Event=Event, Semaphore=Semaphore,
    BoundedSemaphore=BoundedSemaphore, current_thread=current_thread, currentThread=current_thread,
    local=_Local, get_ident=_get_ident, TIMEOUT_MAX=_rt.TIMEOUT_MAX,
    main_thread=lambda: S.threads[0], active_count=lambda: sum(1 for t in S.threads if t.state == "run"),
    enumerate=lambda: [t for t in S.threads if t.state == "run"],
)


def _virtual_time():
    return S.now


_QUEUE_MOD = None


def shim_queue():
    """The standard library's own queue.py, executed over the shim threading and the virtual clock."""
    global _QUEUE_MOD
    if _QUEUE_MOD is None:
        import queue as q

        with open(q.__file__) as f:
            src = f.read()
        m = types.ModuleType("mc_queue")
        m.__dict__["__builtins__"] = __builtins__
        exec(compile(src, q.__file__, "exec"), m.__dict__)
        m.threading = shim_threading
        m.time = _virtual_time
        m.Empty = q.Empty
        m.Full = q.Full
        m.SimpleQueue = None
        _QUEUE_MOD = m
    return _QUEUE_MOD


shim_time = types.SimpleNamespace(
    time=_virtual_time, monotonic=_virtual_time, sleep=lambda s: S.sleep(s), perf_counter=_virtual_time)

_INSTALLED = []


def install(threadpool=True, socketserver_too=False):
    """Rebinds the concurrency globals of the library (and socketserver) to the shim."""
    if _INSTALLED:
        return
    import importlib

    import jsonrpclib.threadpool as tp

    _INSTALLED.append((tp, "threading", tp.threading))
    _INSTALLED.append((tp, "queue", tp.queue))
    # Re-execute the module with the shim standing in for `threading` and `queue` in sys.modules, so that names
    # resolved at class-definition time (e.g. `class Worker(threading.Thread)`) are bound to the shim as well;
    # then (re)bind the module attributes, which is what every run-time reference goes through.
    real = {k: sys.modules.get(k) for k in ("threading", "queue")}
    sys.modules["threading"] = shim_threading
    sys.modules["queue"] = shim_queue()
    try:
        importlib.reload(tp)
    finally:
        for k, v in real.items():
            if v is None:
                sys.modules.pop(k, None)
            else:
                sys.modules[k] = v
    tp.threading = shim_threading
    tp.queue = shim_queue()
    if socketserver_too:
        import socketserver

        _INSTALLED.append((socketserver, "threading", socketserver.threading))
        socketserver.threading = shim_threading
        _INSTALLED.append((socketserver, "time", socketserver.time))
        socketserver.time = _virtual_time


def uninstall():
    while _INSTALLED:
        mod, name, val = _INSTALLED.pop()
        setattr(mod, name, val)


# ---------------------------------------------------------------------------
# running one execution


class Execution(object):
    __slots__ = ("points", "status", "nsteps", "threads", "obs", "viols", "detail", "fires", "fingerprints", "trace_log",
                 "thread_errors", "now")


def run_one(main, choices=(), expect=None, timer_budget=0, audited=(), step=None, final=None, abstract=None,
            count_states=False, record_trace=False, opcode_funcs=(), lenient=False):
    """Runs `main()` as managed thread 0 under the given choice prefix (then choice 0).

    final(sched) is evaluated in the controlling thread while every managed
    thread is parked; it returns (observation, [(signature, detail)...])."""
    global S
    s = Scheduler(choices, timer_budget, audited, step, expect, opcode_funcs)
    s.abstract = abstract
    s.harness = getattr(main, "__self__", None)
    s.lenient = lenient
    s.record_trace = record_trace
    if count_states:
        s.fingerprints = set()
    S = s
    t0 = MThread(target=main, name="main")
    t0.state = "run"
    t0.index = 0
    t0.ident = 1000
    s.threads.append(t0)
    s.cur = t0
    t0.os = _spawn(lambda: t0._boot(s))
    t0.baton.release()
    if not s.done_sem.acquire(timeout=WATCHDOG_S):
        import faulthandler

        faulthandler.dump_traceback(all_threads=True)
        s.aborting = True
        raise HarnessError("execution escaped the scheduler (watchdog %.0fs): choices=%r" % (WATCHDOG_S, s.choices))
    ex = Execution()
    ex.points = s.points
    ex.status = s.status
    ex.nsteps = s.nsteps
    ex.detail = getattr(s, "diverged", "")
    ex.fires = (s.fires_forced, s.fires_chosen)
    ex.fingerprints = s.fingerprints
    ex.trace_log = s.trace_log
    ex.now = s.now
    ex.threads = [(t.name, t.state, t.why, t.deadline is not None) for t in s.threads]
    ex.thread_errors = [(t.name, t.exc) for t in s.threads if t.exc is not None]
    ex.obs, ex.viols = (None, [])
    if final is not None and s.status != "diverged":
        s.postmortem = True
        s.cur = MThread(name="postmortem")
        s.cur.index = -1
        ex.obs, ex.viols = final(s)
        s.postmortem = False
    # tear down: every OS thread of this execution must be gone before the next one starts
    s.aborting = True
    for t in s.threads:
        if t.os is not None and t.state != "done":
            t.baton.release()
    for t in s.threads:
        if t.os is not None:
            if not s.exit_sem.acquire(timeout=WATCHDOG_S):
                raise HarnessError("a managed thread did not unwind (threads: %r)" % [(x.name, x.state) for x in s.threads])
    if s.status == "diverged":
        raise HarnessError("replay diverged: %s (choices=%r)" % (ex.detail, list(choices)))
    return ex


# ---------------------------------------------------------------------------
# proof obligations of the scheduler itself (./check selftest)


def selftest():
    import queue as real_queue

    out = []
    install()
    q = shim_queue()

    # 1. shim fidelity: the same scenarios on real threading/queue and on the shim (default schedule)
    def scenario(T, Q):
        log = []
        qq = Q.Queue(2)
        done = T.Event()

        def producer():
            for i in range(5):
                qq.put(i)
            done.set()

        def consumer():
            got = []
            while len(got) < 5:
                got.append(qq.get(True, 5))
                qq.task_done()
            log.append(("consumed", got))

        a = T.Thread(target=producer)
        b = T.Thread(target=consumer)
        a.start()
        b.start()
        a.join()
        b.join()
        qq.join()
        log.append(("done", done.is_set(), qq.qsize(), qq.unfinished_tasks, qq.empty()))
        # bounded put with timeout raises Full; get on empty raises Empty
        q2 = Q.Queue(1)
        q2.put("x")
        try:
            q2.put("y", True, 0.01)
            log.append("put-no-full")
        except Q.Full:
            log.append("Full")
        q2.get()
        try:
            q2.get(True, 0.01)
        except Q.Empty:
            log.append("Empty")
        # lock / rlock / condition / event tables
        l = T.Lock()
        log.append(("lock", l.acquire(False), l.acquire(False), l.locked()))
        l.release()
        r = T.RLock()
        log.append(("rlock", r.acquire(False), r.acquire(False)))
        r.release()
        r.release()
        c = T.Condition()
        with c:
            log.append(("cond-timeout", c.wait(0.01)))
        e = T.Event()
        log.append(("event", e.is_set(), e.wait(0.01)))
        e.set()
        log.append(("event-set", e.is_set(), e.wait(0.01)))
        e.clear()
        log.append(("event-clear", e.is_set()))
        return log

    real = scenario(_rt, real_queue)
    holder = {}

    def main():
        holder["log"] = scenario(shim_threading, q)

    ex = run_one(main)
    out.append(("shim threading/queue agree with the real ones on the fidelity scenarios", ex.status == "ok" and holder.get("log") == real,
                "" if holder.get("log") == real else "real=%r shim=%r" % (real, holder.get("log"))))

    # 2. replay determinism + 3. racy harness shows both orders + 4. deadlock detection
    from mc import explore

    class Racy(object):
        audited = ()

        def __init__(self):
            self.order = []

        def main(self):
            def w(n):
                l.acquire()
                self.order.append(n)
                l.release()
            l = Lock()
            ts = [MThread(target=w, args=(i,)) for i in range(2)]
            for t in ts:
                t.start()
            for t in ts:
                t.join()

        def final(self, s):
            return (tuple(self.order), [])

    part_obs = set()
    stack = [([], [])]
    n = 0
    while stack:
        choices, expect = stack.pop()
        exr = explore.run_harness(Racy, choices, expect, 0)
        n += 1
        part_obs.add(exr.obs)
        stack.extend(explore.children(exr.points, len(choices), 1, 0))
    out.append(("exploration of a racy two-thread harness reaches both orders", part_obs == {(0, 1), (1, 0)}, "executions=%d observations=%r" % (n, sorted(part_obs))))
    sch = [p.choice for p in exr.points]
    a = explore.run_harness(Racy, sch, None, 0, record_trace=True)
    b = explore.run_harness(Racy, sch, None, 0, record_trace=True)
    out.append(("a recorded schedule replays to the identical trace and observation", a.trace_log == b.trace_log and a.obs == b.obs, ""))

    class Dead(object):
        audited = ()

        def main(self):
            l1, l2 = Lock(), Lock()

            def w1():
                with l1:
                    with l2:
                        pass

            def w2():
                with l2:
                    with l1:
                        pass
            ts = [MThread(target=w1), MThread(target=w2)]
            for t in ts:
                t.start()
            for t in ts:
                t.join()

        def final(self, s):
            return (s.status, [])

    statuses = set()
    stack = [([], [])]
    while stack:
        choices, expect = stack.pop()
        exd = explore.run_harness(Dead, choices, expect, 0)
        statuses.add(exd.status)
        stack.extend(explore.children(exd.points, len(choices), 1, 0))
    out.append(("a lock-order inversion is reported as a deadlock within one preemption", "deadlock" in statuses and "ok" in statuses, "statuses=%r" % sorted(statuses)))

    # 5. virtual clock: a timed wait fires only when nothing else can run, and advances time exactly
    def clock_main():
        e = Event()
        t0 = S.now
        r = e.wait(7.5)
        holder["clock"] = (r, S.now - t0)

    run_one(clock_main)
    out.append(("virtual clock advances by exactly the timeout of a forced timer", holder.get("clock") == (False, 7.5), repr(holder.get("clock"))))
    return out
