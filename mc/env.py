"""E2 - deterministic in-memory network for the client-side properties (C17, C18, C19).

`ScriptPeer` plays the server side of every connection from a list of
behaviours, one consumed per connection attempt (REFUSE) or per complete
request read.  `client_net(peer)` rebinds the socket factories the client
stack uses (http.client.socket.create_connection for TCP, the `socket` global
of jsonrpclib.jsonrpc for Unix) so that the *real* HTTPConnection /
xmlrpc Transport / jsonrpclib transports talk to it.  There are no threads:
the peer runs inline when the client's request is complete, so every run is
deterministic by construction.
"""
import contextlib
import errno
import gzip
import io
import json
import socket as real_socket

ALPHABET = ["OK_KA", "OK_CLOSE", "REFUSE", "CLOSE0", "RESET", "E4XX_LEN", "E5XX_LEN", "E5XX_NOLEN", "BODILESS", "TRUNC", "EMPTY200",
            "GARBAGE200", "TRUNC_BIG", "RESET_MID"]
# TRUNC_BIG / RESET_MID: the truncated-body and reset faults striking after several read blocks of the body were delivered
BIG_PAD = (b"0123456789abcdef" * 200)
# further behaviours (used in shorter sequences): non-200 replies whose body is binary / carries the JSON-RPC content type / is
# truncated, and a bodiless status announcing a length
EXTENDED = ["E4XX_BIN", "E500_JSONCT", "E5XX_TRUNC", "E204_LEN", "E4XX_BIGUTF8", "E599_NOREASON", "E520_BLANKREASON", "E404_NOREASON", "E299_OK", "E302_LEN"]
EOF_SPIN_LIMIT = 300


def http_resp(status, reason, body, extra=(), length=True, ka=True):
    h = ["HTTP/1.1 %d %s" % (status, reason)]
    if length:
        h.append("Content-Length: %d" % len(body))
    if not ka:
        h.append("Connection: close")
    h += list(extra)
    return ("\r\n".join(h) + "\r\n\r\n").encode("latin-1") + body


def ok_body(req):
    """Healthy JSON-RPC reply echoing params[0] (the call's unique token)."""
    def one(e):
        p = e.get("params")
        tok = p[0] if isinstance(p, list) and p else (p.get("t") if isinstance(p, dict) else None)
        if "jsonrpc" in e:
            return {"jsonrpc": "2.0", "id": e.get("id"), "result": tok}
        return {"id": e.get("id"), "result": tok, "error": None}
    if isinstance(req, list):
        out = [one(e) for e in req if isinstance(e, dict) and e.get("id") is not None]
        return json.dumps(out).encode() if out else b""
    if not isinstance(req, dict) or req.get("id") is None:
        return b""
    return json.dumps(one(req)).encode()


class Request(object):
    def __init__(self, raw_head, body):
        lines = raw_head.decode("latin-1").split("\r\n")
        self.request_line = lines[0]
        self.headers = []
        for l in lines[1:]:
            k, _, v = l.partition(":")
            self.headers.append((k, v.strip()))
        self.body = body
        parts = self.request_line.split(" ")
        self.method = parts[0]
        self.target = parts[1] if len(parts) > 1 else None

    def header_values(self, name):
        return [v for k, v in self.headers if k.lower() == name.lower()]


class ScriptPeer(object):
    def __init__(self, script=(), responder=None, chunker=None):
        self.script = list(script)
        self.pos = 0
        self.conns = 0
        self.requests = []  # Request objects, in arrival order
        self.responder = responder  # optional callable(peer, request, parsed) -> (bytes, close?) overriding OK behaviours
        self.chunker = chunker  # optional callable(total_len) -> list of piece sizes for delivering each response
        self.consumed = []  # (behaviour, 'connect'|'request')

    def peek(self):
        return self.script[self.pos] if self.pos < len(self.script) else "OK_KA"

    def take(self, how):
        b = self.peek()
        self.pos += 1
        self.consumed.append((b, how))
        return b

    def on_connect(self):
        """Called for every connection attempt; raises to refuse."""
        if self.peek() == "REFUSE":
            self.take("connect")
            raise ConnectionRefusedError(errno.ECONNREFUSED, "Connection refused")
        self.conns += 1


class PeerSocket(object):
    """Client-side end of a connection to a ScriptPeer."""

    def __init__(self, peer):
        self.peer = peer
        self.inbuf = bytearray()
        self.out = bytearray()
        self.pieces = []
        self.peer_closed = False
        self.reset = False
        self.closed = False
        self.io_refs = 0
        self.want_close = False

    # --- socket API used by http.client ---------------------------------
    def setsockopt(self, *a):
        pass

    def settimeout(self, t):
        pass

    def connect(self, addr):
        self.peer.on_connect()

    def sendall(self, data):
        if self.closed:
            raise OSError(errno.EBADF, "Bad file descriptor")
        if self.reset:
            raise ConnectionResetError(errno.ECONNRESET, "Connection reset by peer")
        if self.peer_closed:
            raise BrokenPipeError(errno.EPIPE, "Broken pipe")
        self.inbuf += bytes(data)
        self._serve()

    def send(self, data):
        self.sendall(data)
        return len(data)

    def recv_into(self, buf):
        if self.reset:
            raise ConnectionResetError(errno.ECONNRESET, "Connection reset by peer")
        if not self.out:
            if getattr(self, "reset_after", False):
                self.reset_after = False
                self.reset = True
                raise ConnectionResetError(errno.ECONNRESET, "Connection reset by peer")
            if self.peer_closed:
                self.eof_reads = getattr(self, "eof_reads", 0) + 1
                if self.eof_reads > EOF_SPIN_LIMIT:
                    raise AssertionError("client keeps reading after the end of the stream (%d reads at EOF)" % self.eof_reads)
                return 0
            raise AssertionError("client would block forever: the scripted peer has nothing to say")
        n = min(len(buf), len(self.out))
        if self.pieces:
            n = min(n, self.pieces[0])
            self.pieces[0] -= n
            if self.pieces[0] == 0:
                self.pieces.pop(0)
        buf[:n] = self.out[:n]
        del self.out[:n]
        return n

    def recv(self, n):
        b = bytearray(n)
        k = self.recv_into(b)
        return bytes(b[:k])

    def makefile(self, mode="r", buffering=None, **kw):
        s = self

        class Raw(io.RawIOBase):
            def readable(self):
                return True

            def readinto(self, b):
                return s.recv_into(b)

            def close(self):
                if not self.closed:
                    io.RawIOBase.close(self)
                    s.io_refs -= 1
                    if s.want_close and s.io_refs <= 0:
                        s.closed = True

        self.io_refs += 1
        return io.BufferedReader(Raw())

    def close(self):
        # like socket.socket: the connection stays usable through makefile objects still open
        self.want_close = True
        if self.io_refs <= 0:
            self.closed = True

    def shutdown(self, how):
        pass

    # --- the peer ----------------------------------------------------------
    def _emit(self, data):
        self.out += data
        if self.peer.chunker is not None:
            self.pieces += list(self.peer.chunker(len(data)))

    def _serve(self):
        i = self.inbuf.find(b"\r\n\r\n")
        if i < 0:
            return
        head = bytes(self.inbuf[:i])
        cl = 0
        for line in head.decode("latin-1").split("\r\n")[1:]:
            k, _, v = line.partition(":")
            if k.lower() == "content-length":
                try:
                    cl = int(v)
                except ValueError:
                    cl = 0
        if len(self.inbuf) < i + 4 + cl:
            return
        body = bytes(self.inbuf[i + 4:i + 4 + cl])
        del self.inbuf[:i + 4 + cl]
        req = Request(head, body)
        self.peer.requests.append(req)
        try:
            parsed = json.loads(body.decode("utf-8"))
        except Exception:
            parsed = None
        b = self.peer.take("request")
        if b == "REFUSE":
            b = "CLOSE0"  # a refusal only exists at connect time; on an open connection the peer just goes away
        good = ok_body(parsed)
        if self.peer.responder is not None and b in ("OK_KA", "OK_CLOSE"):
            data, close = self.peer.responder(self.peer, req, parsed)
            self._emit(data)
            if close == "reset":
                self.reset_after = True  # the connection is reset once the bytes emitted so far have been read
            else:
                self.peer_closed = close or b == "OK_CLOSE"
            return
        if b == "OK_KA":
            self._emit(http_resp(200, "OK", good))
        elif b == "OK_CLOSE":
            self._emit(http_resp(200, "OK", good, ka=False))
            self.peer_closed = True
        elif b == "CLOSE0":
            self.peer_closed = True
        elif b == "RESET":
            self.reset = True
        elif b == "E4XX_LEN":
            self._emit(http_resp(404, "Not Found", http_resp(200, "OK", good)))
        elif b == "E5XX_LEN":
            self._emit(http_resp(500, "Internal Server Error", http_resp(200, "OK", good)))
        elif b == "E5XX_NOLEN":
            self._emit(http_resp(500, "Internal Server Error", good, length=False))
            self.peer_closed = True
        elif b == "BODILESS":
            self._emit(b"HTTP/1.1 204 No Content\r\n\r\n")
        elif b == "TRUNC":
            full = http_resp(200, "OK", good + b"x" * 16)
            self._emit(full[:-8])
            self.peer_closed = True
        elif b == "TRUNC_BIG":
            full = http_resp(200, "OK", b'"' + BIG_PAD + b'"')
            self._emit(full[:-1200])
            self.peer_closed = True
        elif b == "RESET_MID":
            full = http_resp(200, "OK", b'"' + BIG_PAD + b'"')
            self._emit(full[:-1200])
            self.reset_after = True
        elif b == "E4XX_BIN":
            self._emit(http_resp(404, "Not Found", b"\xff\xfe<html>\xe9\xe8 not utf-8</html>" + b"\x80" * 40))
        elif b == "E4XX_BIGUTF8":
            self._emit(http_resp(403, "Forbidden", b"a" * 1023 + "\u00e9".encode("utf-8") * 700))
        elif b == "E500_JSONCT":
            foreign = json.dumps({"jsonrpc": "2.0", "id": (parsed or {}).get("id") if isinstance(parsed, dict) else None, "result": "FOREIGN RESULT"}).encode()
            self._emit(http_resp(500, "Internal Server Error", foreign, extra=("Content-Type: application/json-rpc",)))
        elif b == "E5XX_TRUNC":
            full = http_resp(503, "Service Unavailable", b"<html>" + b"x" * 300 + b"</html>")
            self._emit(full[:-100])
            self.peer_closed = True
        elif b == "E204_LEN":
            self._emit(b"HTTP/1.1 204 No Content\r\nContent-Length: 25\r\n\r\n")
        elif b == "E599_NOREASON":
            self._emit(b"HTTP/1.1 599\r\nContent-Length: 2\r\n\r\n{}")
        elif b == "E520_BLANKREASON":
            self._emit(b"HTTP/1.1 520 \r\nContent-Length: 0\r\n\r\n")
        elif b == "E404_NOREASON":
            self._emit(b"HTTP/1.1 404\r\nContent-Length: 0\r\n\r\n")
        elif b == "E302_LEN":
            self._emit(http_resp(302, "Found", b"<html>moved</html>", extra=("Location: http://elsewhere.test/",)))
        elif b == "E299_OK":
            self._emit(http_resp(299, "Strange", good))
        elif b == "EMPTY200":
            self._emit(http_resp(200, "OK", b""))
        elif b == "GARBAGE200":
            self._emit(http_resp(200, "OK", b"<html>not json</html>"))
        else:
            raise AssertionError("unknown behaviour %r" % (b,))


class _NS(object):
    """Namespace forwarding everything except the overridden names to the real socket module."""

    def __init__(self, **o):
        self.__dict__.update(o)

    def __getattr__(self, n):
        return getattr(real_socket, n)


@contextlib.contextmanager
def client_net(peer):
    import http.client

    import jsonrpclib.jsonrpc as J

    def create_connection(addr, timeout=None, source_address=None, **kw):
        s = PeerSocket(peer)
        s.connect(addr)
        return s

    class UnixSock(PeerSocket):
        def __init__(self, family=None, type=None, proto=0):
            PeerSocket.__init__(self, peer)

    old_h, old_j = http.client.socket, J.socket
    http.client.socket = _NS(create_connection=create_connection)
    J.socket = _NS(socket=UnixSock)
    try:
        yield peer
    finally:
        http.client.socket, J.socket = old_h, old_j


def gzip_bytes(data):
    buf = io.BytesIO()
    with gzip.GzipFile(fileobj=buf, mode="wb", mtime=0) as f:
        f.write(data)
    return buf.getvalue()
