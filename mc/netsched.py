"""In-memory sockets and selector driven by the E1 scheduler (for C12).

Every operation that can block on a real socket (accept, connect, send, a read
on an empty buffer, select) is a scheduling point and blocks through the
scheduler, so the real socketserver / http.server / http.client code runs with
all interleavings under our control.  `socket.close()` is deferred while
makefile objects are open, like the real thing.
"""
import collections
import errno
import io
import socket as real_socket

from mc import sched

NET = {}
EVENTS = []  # environment-level observations of the execution in progress (e.g. a reader spinning on a closed connection)
EOF_SPIN_LIMIT = 300


def reset():
    NET.clear()
    del EVENTS[:]


class Pipe(object):
    __slots__ = ("buf", "closed")

    def __init__(self):
        self.buf = bytearray()
        self.closed = False


class FSock(object):
    def __init__(self, family=real_socket.AF_INET, type=real_socket.SOCK_STREAM, proto=0, fileno=None):
        self.family = family
        self.type = type
        self.rx = self.tx = None
        self.backlog = None
        self.addr = None
        self.closed = False
        self.io_refs = 0
        self.want_close = False
        self.label = None

    # --- server side -----------------------------------------------------
    def setsockopt(self, *a):
        pass

    def getsockopt(self, *a):
        return 0

    def settimeout(self, t):
        # honoured in virtual time by the receiving side (a timeout left on a socket limits every later wait on it)
        self.timeout = t if isinstance(t, (int, float)) and not isinstance(t, bool) else None

    def gettimeout(self):
        return getattr(self, "timeout", None)

    def setblocking(self, b):
        pass

    def bind(self, addr):
        if addr in NET and not NET[addr].closed:
            raise OSError(errno.EADDRINUSE, "Address already in use")
        self.addr = addr

    def listen(self, n=5):
        self.backlog = collections.deque()
        NET[self.addr] = self

    def getsockname(self):
        return self.addr

    def getpeername(self):
        return ("peer", 0)

    def fileno(self):
        if self.closed:
            return -1
        return 99

    def accept(self):
        s = sched.S
        s.point("sock.accept")
        if not self.backlog and not self.closed:
            s.block(lambda: self.backlog or self.closed, None, "accept")
        if self.closed or not self.backlog:
            raise OSError(errno.EBADF, "Bad file descriptor")
        return self.backlog.popleft(), ("peer", 0)

    # --- client side --------------------------------------------------------
    def connect(self, addr):
        sched.S.point("sock.connect")
        l = NET.get(addr)
        if l is None or l.closed or l.backlog is None:
            raise ConnectionRefusedError(errno.ECONNREFUSED, "Connection refused")
        a, b = Pipe(), Pipe()
        srv = FSock(self.family)
        srv.rx, srv.tx = a, b
        self.rx, self.tx = b, a
        l.backlog.append(srv)

    def sendall(self, data):
        sched.S.point("sock.send")
        if self.closed and self.io_refs <= 0:
            raise OSError(errno.EBADF, "Bad file descriptor")
        if self.tx is None:
            raise OSError(errno.ENOTCONN, "not connected")
        if self.tx.closed:
            raise BrokenPipeError(errno.EPIPE, "Broken pipe")
        self.tx.buf += bytes(data)

    def send(self, data):
        self.sendall(data)
        return len(data)

    def recv_into(self, b):
        p = self.rx
        if p is None:
            raise OSError(errno.ENOTCONN, "not connected")
        if not p.buf and not p.closed:
            t = getattr(self, "timeout", None)
            if not sched.S.block(lambda: p.buf or p.closed, t, "recv") and t is not None and not p.buf and not p.closed:
                raise TimeoutError("timed out")
        if not p.buf:
            # end of stream: a reader that keeps asking would spin forever without ever yielding
            self.eof_reads = getattr(self, "eof_reads", 0) + 1
            if self.eof_reads > EOF_SPIN_LIMIT:
                EVENTS.append("reader-spins-on-end-of-stream")
                raise OSError(errno.EIO, "verification harness: %d reads after end of stream" % self.eof_reads)
        n = min(len(b), len(p.buf))
        b[:n] = p.buf[:n]
        del p.buf[:n]
        return n

    def recv(self, n):
        b = bytearray(n)
        k = self.recv_into(b)
        return bytes(b[:k])

    def makefile(self, mode="r", buffering=None, **kw):
        s = self

        class Raw(io.RawIOBase):
            def readable(self):
                return True

            def writable(self):
                return True

            def readinto(self, b):
                return s.recv_into(b)

            def write(self, b):
                s.sendall(bytes(b))
                return len(b)

            def close(self):
                if not self.closed:
                    io.RawIOBase.close(self)
                    s.io_refs -= 1
                    if s.want_close and s.io_refs <= 0:
                        s._real_close()

        self.io_refs += 1
        raw = Raw()
        if buffering == 0:
            return raw
        if "r" in mode:
            return io.BufferedReader(raw)
        return io.BufferedWriter(raw)

    def shutdown(self, how):
        if how in (real_socket.SHUT_WR, real_socket.SHUT_RDWR) and self.tx is not None:
            self.tx.closed = True

    def close(self):
        self.closed = True
        self.want_close = True
        if self.io_refs <= 0:
            self._real_close()

    def detach(self):
        return -1

    def _real_close(self):
        if self.tx is not None:
            self.tx.closed = True
        if self.rx is not None:
            self.rx.closed = True
        if self.backlog is not None:
            # like the kernel: connections that were never accepted are reset when the listener goes away
            while self.backlog:
                pending = self.backlog.popleft()
                pending._real_close()

    def __enter__(self):
        return self

    def __exit__(self, *a):
        self.close()

    def __del__(self):
        # like CPython's socket objects: an unreferenced socket is closed (e.g. an accepted connection whose
        # queued handling task was discarded)
        try:
            if not self.closed:
                self._real_close()
        except Exception:
            pass


class FSel(object):
    """Stand-in for socketserver._ServerSelector (one registered listener)."""

    def __enter__(self):
        return self

    def __exit__(self, *a):
        pass

    def register(self, server, events, data=None):
        self.l = server.socket if hasattr(server, "socket") else server

    def unregister(self, s):
        pass

    def close(self):
        pass

    def select(self, timeout=None):
        l = self.l
        sched.S.point("select")
        if not l.backlog and not l.closed:
            sched.S.block(lambda: l.backlog or l.closed, timeout, "select")
        return [1] if l.backlog else []


class _NS(object):
    def __init__(self, **o):
        self.__dict__.update(o)

    def __getattr__(self, n):
        return getattr(real_socket, n)


def create_connection(addr, timeout=None, source_address=None, **kw):
    s = FSock()
    s.connect(addr)
    return s


_SAVED = []


def install():
    """Rebinds socketserver / http.client / jsonrpclib socket factories to the scheduler-driven fake network."""
    if _SAVED:
        return
    import http.client
    import socketserver

    import jsonrpclib.jsonrpc as J
    import jsonrpclib.SimpleJSONRPCServer as SS

    sched.install(socketserver_too=True)
    for mod, name, val in (
        (socketserver, "socket", _NS(socket=FSock)),
        (socketserver, "_ServerSelector", FSel),
        (http.client, "socket", _NS(create_connection=create_connection)),
        (J, "socket", _NS(socket=FSock)),
        (SS, "fcntl", None),
    ):
        _SAVED.append((mod, name, getattr(mod, name)))
        setattr(mod, name, val)


def uninstall():
    while _SAVED:
        mod, name, val = _SAVED.pop()
        setattr(mod, name, val)
