"""Independent recogniser for RFC 8259 JSON texts (no values built).

Used as the oracle for 'malformed body' so that the judgement does not depend
on the standard-library parser the code under test delegates to.
"""

WS = " \t\n\r"
HEX = "0123456789abcdefABCDEF"
DIGITS = "0123456789"


class _Bad(Exception):
    pass


def _ws(s, i):
    n = len(s)
    while i < n and s[i] in WS:
        i += 1
    return i


def _string(s, i):
    # s[i] == '"'
    i += 1
    n = len(s)
    while True:
        if i >= n:
            raise _Bad()
        c = s[i]
        if c == '"':
            return i + 1
        if c == "\\":
            i += 1
            if i >= n:
                raise _Bad()
            e = s[i]
            if e in '"\\/bfnrt':
                i += 1
            elif e == "u":
                if i + 4 >= n + 0 and len(s[i + 1:i + 5]) < 4:
                    raise _Bad()
                h = s[i + 1:i + 5]
                if len(h) < 4 or any(ch not in HEX for ch in h):
                    raise _Bad()
                i += 5
            else:
                raise _Bad()
        elif ord(c) < 0x20:
            raise _Bad()
        else:
            i += 1


def _number(s, i):
    n = len(s)
    if i < n and s[i] == "-":
        i += 1
    if i >= n:
        raise _Bad()
    if s[i] == "0":
        i += 1
    elif s[i] in "123456789":
        while i < n and s[i] in DIGITS:
            i += 1
    else:
        raise _Bad()
    if i < n and s[i] == ".":
        i += 1
        if i >= n or s[i] not in DIGITS:
            raise _Bad()
        while i < n and s[i] in DIGITS:
            i += 1
    if i < n and s[i] in "eE":
        i += 1
        if i < n and s[i] in "+-":
            i += 1
        if i >= n or s[i] not in DIGITS:
            raise _Bad()
        while i < n and s[i] in DIGITS:
            i += 1
    return i


def _value(s, i, depth):
    if depth > 200:
        raise _Bad()
    i = _ws(s, i)
    if i >= len(s):
        raise _Bad()
    c = s[i]
    if c == '"':
        return _string(s, i)
    if c == "{":
        i = _ws(s, i + 1)
        if i < len(s) and s[i] == "}":
            return i + 1
        while True:
            i = _ws(s, i)
            if i >= len(s) or s[i] != '"':
                raise _Bad()
            i = _string(s, i)
            i = _ws(s, i)
            if i >= len(s) or s[i] != ":":
                raise _Bad()
            i = _value(s, i + 1, depth + 1)
            i = _ws(s, i)
            if i < len(s) and s[i] == ",":
                i += 1
                continue
            if i < len(s) and s[i] == "}":
                return i + 1
            raise _Bad()
    if c == "[":
        i = _ws(s, i + 1)
        if i < len(s) and s[i] == "]":
            return i + 1
        while True:
            i = _value(s, i, depth + 1)
            i = _ws(s, i)
            if i < len(s) and s[i] == ",":
                i += 1
                continue
            if i < len(s) and s[i] == "]":
                return i + 1
            raise _Bad()
    for lit in ("true", "false", "null"):
        if s.startswith(lit, i):
            return i + len(lit)
    if c == "-" or c in DIGITS:
        return _number(s, i)
    raise _Bad()


def is_json_text(s):
    """True iff `s` is a JSON text per RFC 8259 (any value at top level)."""
    try:
        i = _value(s, 0, 0)
        i = _ws(s, i)
        return i == len(s)
    except _Bad:
        return False
