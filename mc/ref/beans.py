"""Side-effect-free classes for __jsonclass__ descriptors in server-side checks."""


class Plain(object):
    def __init__(self):
        self.a = 1

    def __eq__(self, other):
        return type(other) is type(self) and other.__dict__ == self.__dict__

    __hash__ = None


class Slotted(object):
    __slots__ = ("a",)

    def __init__(self):
        self.a = 1


class ReadOnly(object):
    def __init__(self):
        self.a = 1

    @property
    def ro(self):
        return 5
