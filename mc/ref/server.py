"""Reference model of the JSON-RPC server side, written from the property texts
(C02, C03, C04, C05, C13) and the JSON-RPC 1.0/2.0 specifications - not from
the implementation.

`World` builds a *real* dispatcher whose registered callables record their
invocations; `expect()` predicts, for a parsed request, which response objects
must appear (ids, error codes, forms, values) and which invocations must have
been logged; `judge()` compares a reply text with that prediction and returns
violations tagged with the property whose clause is broken.
"""
import inspect
import copy
import json

from mc import gen

ABSENT = object()


class Boom(Exception):
    pass


class BadSer(object):
    """A bean whose serialisation method raises (conversion of the result fails)."""

    def _serialize(self):
        raise RuntimeError("cannot serialise")


class _Leaf(object):
    def __init__(self, log):
        self._log = log

    def leaf(self, *a):
        self._log.append(("sub.inner.leaf", list(a), {}))
        return "LEAF"


class _Sub(object):
    def __init__(self, log):
        self._log = log
        self.inner = _Leaf(log)
        self.data = 5  # exists, not callable

    def deep(self, *a):
        self._log.append(("sub.deep", list(a), {}))
        return "DEEP"

    def _hid(self, *a):
        self._log.append(("sub._hid", list(a), {}))
        return "HID"


class _Ns(object):
    """Reached through the instance under the same dotted path as the registered function 'ns.f' (the function wins)."""

    def __init__(self, log):
        self._log = log

    def f(self, *a):
        self._log.append(("instance.ns.f", list(a), {}))
        return "INSTANCE-NS"


class _SubB(_Sub):
    """A replacement for Inst.sub whose methods can be told from the original's."""

    def deep(self, *a):
        self._log.append(("sub.deep", list(a) + ["from-the-replacement"], {}))
        return "DEEP-B"


class Inst(object):
    def __init__(self, log):
        self._log = log
        self.sub = _Sub(log)
        self.ns = _Ns(log)
        self.attr = 7  # exists, not callable

    def pub(self, *a):
        self._log.append(("pub", list(a), {}))
        return "PUB"

    def _priv(self, *a):
        self._log.append(("_priv", list(a), {}))
        return "PRIV"


class OtherInst(object):
    """A second registered instance with a different attribute set (what resolves on Inst must not resolve here)."""

    def __init__(self, log):
        self._log = log

    def only_here(self, *a):
        self._log.append(("only_here", list(a), {}))
        return "ONLY"


class DispInst(object):
    """Instance with its own _dispatch that raises."""

    def __init__(self, log):
        self._log = log

    def _dispatch(self, method, params):
        self._log.append(("inst._dispatch", method, params))
        raise KeyError("inst-boom")


EXC_CLASSES = {}
_SHARED = {}


def _make_shared():
    from jsonrpclib import Fault
    _SHARED["fault"] = Fault(-32002, "shared-fault", data=[1])


_make_shared()  # at import: every execution of every harness sees the same, already existing object


class World(object):
    """Real dispatcher + recording registry."""

    def __init__(self, version=2.0, use_jsonclass=True, instance=None, dispatch="default", pool=None,
                 dispatcher_factory=None):
        import jsonrpclib.config
        from jsonrpclib.SimpleJSONRPCServer import SimpleJSONRPCDispatcher

        self.log = []
        self.version = version
        self.use_jsonclass = use_jsonclass
        self.config = jsonrpclib.config.Config(version=version, use_jsonclass=use_jsonclass)
        # "<dispatch>+handlers": serialisation handlers for built-in types are configured (they rewrite result values
        # - floats rounded, strings upper-cased, integers shifted - and must touch nothing else of a response)
        self.handlers = dispatch.endswith("+handlers")
        dispatch = dispatch.split("+")[0]
        if self.handlers:
            self.config.serialize_handlers[float] = lambda o, sm, ia, ig, cfg: round(o, 1)
            self.config.serialize_handlers[str] = lambda o, sm, ia, ig, cfg: o.upper()
            self.config.serialize_handlers[int] = lambda o, sm, ia, ig, cfg: o + 1000
        self.dispatch = dispatch
        if dispatcher_factory is not None:
            self.d = dispatcher_factory(self.config)
        else:
            self.d = SimpleJSONRPCDispatcher(config=self.config)
        log = self.log
        self.funcs = {}

        def reg(name, fn):
            self.funcs[name] = fn
            self.d.register_function(fn, name)

        def f(*a, **k):
            log.append(("f", list(a), dict(k)))
            return "F"

        def pair(a, b):
            log.append(("pair", [a, b], {}))
            return [a, b]

        def opt(a, b=1):
            log.append(("opt", [a, b], {}))
            return [a, b]

        def echo(x):
            log.append(("echo", [x], {}))
            return x

        def kwonly(a, *, k):
            log.append(("kwonly", [a], {"k": k}))
            return [a, k]

        def boom():
            log.append(("boom", [], {}))
            raise ValueError("boom-text")

        def terr():
            log.append(("terr", [], {}))
            raise TypeError("inner-type-error")

        def nsf(*a):
            log.append(("ns.f", list(a), {}))
            return "NS"

        def under(*a):
            log.append(("_under", list(a), {}))
            return "U"

        def badser():
            log.append(("badser", [], {}))
            return BadSer()

        def retfault():
            # an application error reported by *returning* a Fault built without configuration
            from jsonrpclib import Fault
            log.append(("retfault", [], {}))
            return Fault(-32001, "app-fault", data={"d": 1})

        def sysexit():
            # a callable that raises something outside the Exception hierarchy
            log.append(("sysexit", [], {}))
            raise SystemExit("exit-text")

        def cyclic():
            # a result that no serialiser can convert: a list containing itself
            log.append(("cyclic", [], {}))
            v = [1]
            v.append(v)
            return v

        def deepret():
            # a result nested far deeper than any serialiser's recursion limit
            log.append(("deepret", [], {}))
            v = []
            for _ in range(100000):
                v = [v]
            return v

        def badkeys():
            # a result the class translator accepts and the JSON serialiser refuses (a dict with a tuple key)
            log.append(("badkeys", [], {}))
            return {(1, 2): 3}

        def mutate(*a, **k):
            # a callable that modifies the containers it receives (legitimate: they are its own copies of the request's parameters)
            log.append(("mutate", [copy.deepcopy(x) for x in a], copy.deepcopy(k)))
            sizes = []
            for x in list(a) + list(k.values()):
                if isinstance(x, list):
                    sizes.append(len(x))
                    x.append("added-by-the-callee")
                elif isinstance(x, dict):
                    sizes.append(len(x))
                    x["added-by-the-callee"] = True
                else:
                    inner = getattr(x, "__dict__", None)
                    sizes.append(sorted(inner) if inner is not None else None)
                    if inner is not None:
                        for v in inner.values():
                            if isinstance(v, list):
                                v.append("added-by-the-callee")
            return sizes

        def sharedfault():
            # an application error reported by returning the same long-lived Fault object on every call
            from jsonrpclib import Fault
            log.append(("sharedfault", [], {}))
            return _SHARED["fault"]

        def cfgfault():
            # an application error returned as a Fault that was built with the server's own (non-default) Config
            from jsonrpclib import Fault
            log.append(("cfgfault", [], {}))
            return Fault(-32003, "cfg-fault", data={"k": 1}, config=self.config)

        reg("cfgfault", cfgfault)
        reg("sharedfault", sharedfault)
        reg("mutate", mutate)
        reg("badkeys", badkeys)
        reg("cyclic", cyclic)
        reg("deepret", deepret)
        reg("sysexit", sysexit)
        reg("retfault", retfault)
        reg("f", f)
        reg("pair", pair)
        reg("opt", opt)
        reg("echo", echo)
        reg("kwonly", kwonly)
        reg("boom", boom)
        reg("terr", terr)
        reg("ns.f", nsf)
        reg("_under", under)
        reg("add", pair)
        reg("é", f)
        if use_jsonclass:
            reg("badser", badser)
        for i, v in enumerate([None, 0, False, "", [], {}, 0.0, "r", [1, [2]], {"a": None}]):
            def ret(v=v, i=i):
                log.append(("ret%d" % i, [], {}))
                return v
            reg("ret%d" % i, ret)
        self.ret_values = [None, 0, False, "", [], {}, 0.0, "r", [1, [2]], {"a": None}]
        self.instance = None
        if instance == "plain":
            self.instance = Inst(log)
        elif instance == "dispatching":
            self.instance = DispInst(log)
        elif instance == "other":
            self.instance = OtherInst(log)
        if self.instance is not None:
            self.d.register_instance(self.instance)
        self.dispatch_method = None
        if dispatch == "custom-ok":
            def custom(method, params):
                log.append(("custom", method, params))
                return "CUSTOM"
            self.dispatch_method = custom
        elif dispatch == "custom-raise":
            def custom(method, params):
                log.append(("custom", method, params))
                raise KeyError("custom-boom")
            self.dispatch_method = custom
        if pool is not None:
            self.d.set_notification_pool(pool)

    def run(self, body):
        del self.log[:]
        return self.d._marshaled_dispatch(body, self.dispatch_method)

    # -- model side ---------------------------------------------------------
    def lookup(self, method):
        """-> ('func', f) | ('unknown',) | ('noncallable',) | ('inst-dispatch',)"""
        if method in self.funcs:
            return ("func", self.funcs[method])
        if self.instance is None:
            return ("unknown",)
        if isinstance(self.instance, DispInst):
            return ("inst-dispatch",)
        obj = self.instance
        for seg in method.split("."):
            if seg.startswith("_"):
                return ("unknown",)
            if not hasattr(obj, seg):
                return ("unknown",)
            obj = getattr(obj, seg)
        if not callable(obj):
            return ("noncallable",)
        return ("func", obj)


class Exp(object):
    """Expected response object (None = no response)."""

    def __init__(self, rid, kind, codes=(), value=ABSENT, form=None, contains=(), why=""):
        self.rid = rid
        self.kind = kind
        self.codes = set(codes)
        self.value = value
        self.form = form
        self.contains = list(contains)
        self.why = why

    def __repr__(self):
        return "Exp(id=%r %s %s form=%s %s)" % (self.rid, self.kind, sorted(self.codes) or "", self.form, self.why)


def is_notification(e):
    if "id" not in e:
        return True
    i = e["id"]
    return i is None or (isinstance(i, str) and i == "")


def expect_entry(world, e):
    """-> (Exp or None, expected log entries, is_notification, rejected)"""
    if not isinstance(e, dict):
        return Exp(None, "error", [-32600], why="entry is not an object"), [], False, True
    rid = e.get("id", None)
    if "jsonrpc" not in e and "id" not in e:
        return Exp(None, "error", [-32600], why="no version marker"), [], False, True
    method = e.get("method", None)
    params = e.get("params", [])
    if not method or not isinstance(method, str) or not isinstance(params, (list, dict)):
        return Exp(rid, "error", [-32600], why="invalid method/params"), [], False, True
    notif = is_notification(e)
    form = "1.0" if ("jsonrpc" not in e or float(world.version) < 2) else "2.0"

    def answer(exp):
        return None if notif else exp

    if world.dispatch == "custom-ok":
        return answer(Exp(rid, "result", value="CUSTOM", form=form)), [("custom", method, params)], notif, False
    if world.dispatch == "custom-raise":
        return (answer(Exp(rid, "error", [-32603], form=form, contains=["KeyError", "custom-boom"], why="custom dispatch raised")),
                [("custom", method, params)], notif, False)
    found = world.lookup(method)
    if found[0] == "unknown":
        return answer(Exp(rid, "error", [-32601], form=form, why="unknown method")), [], notif, True
    if found[0] == "noncallable":
        return answer(Exp(rid, "error", [-32601, -32602], form=form, why="attribute exists but is not callable")), [], notif, True
    if found[0] == "inst-dispatch":
        return (answer(Exp(rid, "error", [-32603], form=form, contains=["KeyError", "inst-boom"], why="instance _dispatch raised")),
                [("inst._dispatch", method, params)], notif, False)
    fn = found[1]
    args, kwargs = (list(params), {}) if isinstance(params, list) else ([], dict(params))
    try:
        inspect.signature(fn).bind(*args, **kwargs)
    except TypeError:
        return answer(Exp(rid, "error", [-32602], form=form, why="arguments do not bind")), [], notif, False
    # run the model of the callable
    name = method
    probe = []
    saved = list(world.log)
    try:
        try:
            val = fn(*args, **kwargs)
            outcome = ("ret", val)
        except (Exception, SystemExit) as ex:  # noqa
            outcome = ("exc", ex)
    finally:
        probe = world.log[len(saved):]
        del world.log[len(saved):]
    if outcome[0] == "exc":
        ex = outcome[1]
        return (answer(Exp(rid, "error", [-32603], form=form, contains=[type(ex).__name__, str(ex)], why="method raised %s" % type(ex).__name__)),
                probe, notif, False)
    val = outcome[1]
    if type(val).__name__ == "Fault" and hasattr(val, "faultCode"):
        return (answer(Exp(rid, "error", [val.faultCode], form=form, contains=[val.faultString], why="method returned a Fault")), probe, notif, False)
    if isinstance(val, BadSer):
        return (answer(Exp(rid, "error", [-32603], form=form, contains=["RuntimeError", "cannot serialise"], why="result conversion failed")),
                probe, notif, False)
    if name in ("cyclic", "deepret", "badkeys"):
        return answer(Exp(rid, "error", [-32603], form=form, why="result cannot be converted (cyclic / too deep)")), probe, notif, False
    return answer(Exp(rid, "result", value=val, form=form)), probe, notif, False


def expect(world, parsed_ok, req):
    """-> (shape, [Exp...], expected_log, info)  shape in {'empty','single','batch'}"""
    info = {"notifications": 0, "rejected": 0, "parse_error": not parsed_ok}
    if not parsed_ok:
        info["rejected"] = 1
        return "single", [Exp(None, "error", [-32700], why="malformed body")], [], info
    if isinstance(req, list) and req:
        exps, log = [], []
        for e in req:
            x, l, notif, rej = expect_entry(world, e)
            if x is not None:
                exps.append(x)
            log.extend(l)
            info["notifications"] += 1 if notif else 0
            info["rejected"] += 1 if rej else 0
        if not exps:
            return "empty", [], log, info
        return "batch", exps, log, info
    if not req:
        info["rejected"] = 1
        return "single", [Exp(None, "error", [-32600], why="no request data")], [], info
    x, l, notif, rej = expect_entry(world, req)
    info["notifications"] += 1 if notif else 0
    info["rejected"] += 1 if rej else 0
    if x is None:
        return "empty", [], l, info
    return "single", [x], l, info


def wellformed(obj):
    """C02 well-formedness of one response object; returns '' or a complaint."""
    if not isinstance(obj, dict):
        return "response is %s, not an object" % type(obj).__name__
    if "jsonrpc" in obj:
        if obj["jsonrpc"] != "2.0" or not isinstance(obj["jsonrpc"], str):
            return "jsonrpc member is %r" % (obj["jsonrpc"],)
        if "id" not in obj:
            return "2.0 response without id"
        if ("result" in obj) == ("error" in obj):
            return "2.0 response must have exactly one of result/error: %s" % sorted(obj)
        err = obj.get("error", ABSENT)
        if err is not ABSENT and err is None:
            return "2.0 error member is null"
    else:
        for k in ("result", "error", "id"):
            if k not in obj:
                return "1.0 response without %s" % k
        if obj["error"] is not None and obj["result"] is not None:
            return "1.0 response with both result and error non-null"
        err = obj["error"] if obj["error"] is not None else ABSENT
    if err is not ABSENT:
        if not isinstance(err, dict):
            return "error member is %s" % type(err).__name__
        if not isinstance(err.get("code"), int) or isinstance(err.get("code"), bool):
            return "error code is %r" % (err.get("code"),)
        if not isinstance(err.get("message"), str):
            return "error message is %r" % (err.get("message"),)
    return ""


def judge(world, body, reply, raised, shape, exps, exp_log, info, got_log):
    """Returns [(property, signature, detail)]."""
    v = []
    ctx = "body=%r server_version=%s dispatch=%s" % (body, world.version, world.dispatch)
    if raised is not None:
        v.append(("C02", "C02/dispatcher-raises-%s" % type(raised).__name__, "%s: raised %r" % (ctx, raised)))
        if exps:
            v.append(("C03", "C03/no-reply-at-all-for-entries-that-must-be-answered",
                      "%s: raised %r instead of answering %r" % (ctx, raised, exps)))
        if info["notifications"] and not same_log(got_log, exp_log):
            v.append(("C04", "C04/notification-execution-count", "%s: raised %r; invocation log %r, expected %r" % (ctx, raised, got_log, exp_log)))
        return v
    if not isinstance(reply, str):
        v.append(("C02", "C02/reply-not-text", "%s: returned %r" % (ctx, reply)))
        return v
    objs = None
    try:
        reply.encode("utf-8")
    except UnicodeEncodeError as ex:
        # a JSON text is exchanged in UTF-8 (RFC 8259, 8.1): a reply holding a raw lone surrogate cannot be put on the wire at all
        v.append(("C02", "C02/reply-not-encodable", "%s: reply %r cannot be encoded (%s)" % (ctx, reply, ex)))
        return v
    if reply == "":
        objs = []
        got_shape = "empty"
    else:
        try:
            parsed = json.loads(reply)
        except ValueError as ex:
            v.append(("C02", "C02/reply-not-json", "%s: reply %r (%s)" % (ctx, reply, ex)))
            return v
        if isinstance(parsed, list):
            got_shape = "batch"
            objs = parsed
            if not parsed:
                v.append(("C02", "C02/empty-array-reply", "%s: reply is an empty array" % ctx))
                v.append(("C03", "C03/empty-array-instead-of-empty-body", "%s: reply is an empty array" % ctx))
                return v
        else:
            got_shape = "single"
            objs = [parsed]
        for o in objs:
            w = wellformed(o)
            if w:
                v.append(("C02", "C02/malformed-response-object", "%s: %s in reply %r" % (ctx, w, reply)))
                return v
    # log (exact invocation sequence)
    if not same_log(got_log, exp_log):
        detail = "%s: invocation log %r, expected %r" % (ctx, got_log, exp_log)
        if info["notifications"]:
            v.append(("C04", "C04/notification-execution-count", detail))
        if info["rejected"] and len(got_log) > len(exp_log):
            v.append(("C05", "C05/rejected-request-ran-something", detail))
        v.append(("C01", "C01/server-invocations-differ", detail))
    # counts / shape
    if len(objs) != len(exps) or got_shape != shape:
        detail = "%s: reply %r has shape %s with %d object(s), expected %s with %d: %r" % (
            ctx, reply, got_shape, len(objs), shape, len(exps), exps)
        if info["parse_error"]:
            v.append(("C05", "C05/malformed-body-not-single-32700", detail))
        if info["notifications"] and len(objs) > len(exps):
            v.append(("C04", "C04/notification-answered", detail))
        v.append(("C03", "C03/response-count-or-shape", detail))
        return v
    for i, (o, x) in enumerate(zip(objs, exps)):
        where = "%s: response #%d %r vs %r" % (ctx, i, o, x)
        if not gen.same(o.get("id"), x.rid):
            v.append(("C03", "C03/id-not-echoed/%s" % (x.why or x.kind).replace(" ", "-"), where))
        err = o.get("error")
        if x.kind == "error":
            if err is None:
                v.append(("C05", "C05/error-expected-got-result/%s" % x.why.replace(" ", "-"), where))
                continue
            if err["code"] not in x.codes:
                v.append(("C05", "C05/wrong-code/%s-instead-of-%s" % (err["code"], sorted(x.codes)[0]), where))
            for s in x.contains:
                if s not in err["message"]:
                    v.append(("C05", "C05/-32603-message-lacks-exception-type-or-text", where))
                    break
        else:
            if err is not None:
                v.append(("C05", "C05/unexpected-error/%s" % err.get("code"), where))
                continue
            if x.value is not ABSENT and not gen.same(o.get("result"), gen.normalise(x.value)):
                v.append(("C01", "C01/result-value-differs", where))
        if x.form is not None:
            got_form = "2.0" if "jsonrpc" in o else "1.0"
            if got_form != x.form:
                v.append(("C13", "C13/response-form-%s-expected-%s" % (got_form, x.form), where))
    return v


def same_log(a, b):
    return gen.same(gen.normalise(_log_norm(a)), gen.normalise(_log_norm(b)))


def _log_norm(log):
    return [list(x) if isinstance(x, (list, tuple)) else ["<raw entry>", x] for x in log]


def contains_nonfinite(v):
    if isinstance(v, float):
        return v != v or v in (float("inf"), float("-inf"))
    if isinstance(v, list):
        return any(contains_nonfinite(i) for i in v)
    if isinstance(v, dict):
        return any(contains_nonfinite(i) for i in v.values())
    return False


def sanitize(x):
    """Replaces integers too large for str()/repr() (CPython's int digit limit) by a printable marker, consistently."""
    if isinstance(x, int) and not isinstance(x, bool) and x.bit_length() > 10000:
        return "<int of %d bits>" % x.bit_length()
    if isinstance(x, list):
        return [sanitize(i) for i in x]
    if isinstance(x, tuple):
        return tuple(sanitize(i) for i in x)
    if isinstance(x, dict):
        return {k: sanitize(v) for k, v in x.items()}
    return x


def evaluate_body(world, body, rfc_ok=None):
    """Runs one body through the real dispatcher and the model.

    Returns (violations, class label, in_domain)."""
    from mc.ref import rfc8259

    if rfc_ok is None:
        rfc_ok = rfc8259.is_json_text(body)
    try:
        parsed = json.loads(body)
        std_ok = True
    except ValueError:
        parsed = None
        std_ok = False
    except RecursionError:
        return [], "out-of-domain:recursion", False
    if std_ok and not rfc_ok:
        return [], "out-of-domain:nonstandard-literal", False  # NaN / Infinity tolerated by the stdlib parser
    if std_ok and contains_nonfinite(parsed):
        return [], "out-of-domain:overflowing-number", False
    if not std_ok and rfc_ok:
        return [("HARNESS", "HARNESS/rfc-recogniser-disagrees", "recogniser accepts %r, json.loads rejects" % body)], "harness", True
    raised = None
    reply = None
    try:
        reply = world.run(body)
    except (Exception, SystemExit) as ex:
        raised = ex
    got_log = sanitize(list(world.log))
    if body == "":
        # documented special case: loads("") is None -> 'no request data' (-32600); -32700 equally acceptable
        shape, exps, exp_log, info = "single", [Exp(None, "error", [-32600, -32700], why="empty body")], [], {
            "notifications": 0, "rejected": 1, "parse_error": True}
    else:
        shape, exps, exp_log, info = expect(world, std_ok, parsed)
    exp_log = sanitize(exp_log)
    for x in exps:
        x.rid = sanitize(x.rid)
        if x.value is not ABSENT:
            x.value = sanitize(x.value)
    viols = judge(world, body if len(body) < 2000 else body[:2000] + "...(%d characters)" % len(body), reply, raised, shape, exps, exp_log, info, got_log)
    label = "%s/%s" % (shape, ",".join(sorted({(x.kind if x.kind == "result" else str(sorted(x.codes)[0])) for x in exps})) or "-")
    return viols, label, True
